//go:build verif

package curve

// C06 — all arithmetic backends are observationally identical: package curve.
// Only the exported API is driven and only canonical encodings are compared
// (projective coordinates legitimately differ between the serial and the
// vector formulas); the tests live in-package solely to record the run-time
// switch supportsVectorizedEdwards as evidence of the executing backend.

import (
	"fmt"

	"github.com/oasisprotocol/curve25519-voi/curve/scalar"
	"pgregory.net/rapid"
	h "verifh"
	ref "verifref"
)

func c06Backend() string {
	return h.DiffBackend(fmt.Sprintf("supportsVectorizedEdwards=%v", supportsVectorizedEdwards))
}

// ---- generators (library independent) ----

// c06GenSc appends a scalar below 2^255: shared boundary catalogue, window
// structured values (carry chains in the radix-16 / radix-2^w / NAF
// recodings, digits +-8) and lattice-special values.
func c06GenSc(t *rapid.T, c *h.DiffCase, label string) {
	var b []byte
	switch rapid.IntRange(0, 9).Draw(t, label+"_sk") {
	case 0, 1, 2:
		b, _ = h.C17Scalar(t, label)
	case 3:
		b, _ = h.C16Scalar(t, label)
	default:
		b, _ = h.Scalar255(t, label)
	}
	b[31] &= 0x7f
	c.PutB(b)
}

// c06GenRist appends a ristretto255 string: valid encodings of [a]B built by
// the reference (7/10) or a decoder boundary string.
func c06GenRist(t *rapid.T, c *h.DiffCase, label string, validOnly bool) {
	if !validOnly && rapid.IntRange(0, 9).Draw(t, label+"_src") < 3 {
		b, _ := h.C11GenRistString(t, label)
		c.PutB(b)
	} else {
		ps := h.GenPointSpec(t, label, rapid.IntRange(0, 2).Draw(t, label+"_cheap") != 0)
		ps.J = 0
		c.PutB(ref.RistEncode(h.DiffRef(ps)))
	}
	c.PutN(rapid.IntRange(0, 3).Draw(t, label+"_rerep"))
}

// ---- argument decoding (library side; deterministic fall-backs) ----

func c06Sc(a *h.DiffArgs) *scalar.Scalar {
	s, err := scalar.NewFromBits(a.B())
	if err != nil {
		return scalar.New()
	}
	return s
}

func c06SmallSc(k uint64) *scalar.Scalar { return scalar.NewFromUint64(k) }

// c06Pt decodes a point argument (string, re-representation selector).  An
// undecodable string is recorded in the output and replaced by the basepoint.
func c06Pt(a *h.DiffArgs, o *h.DiffOut) *EdwardsPoint {
	enc, k := a.B(), a.N()
	p := NewEdwardsPoint()
	var cy CompressedEdwardsY
	_, err := cy.SetBytes(enc)
	if err == nil {
		_, err = p.SetCompressedY(&cy)
	}
	if err != nil {
		o.Bool("pt.invalid", true)
		p.Set(ED25519_BASEPOINT_POINT)
	}
	return c06Rerep(p, k)
}

// c06Rerep returns the same point with non-trivial projective coordinates.
func c06Rerep(p *EdwardsPoint, k int) *EdwardsPoint {
	switch k {
	case 1: // (P + B) - B
		q := NewEdwardsPoint().Add(p, ED25519_BASEPOINT_POINT)
		return q.Sub(q, ED25519_BASEPOINT_POINT)
	case 2: // (P - [3]B) + [3]B
		b3 := NewEdwardsPoint().Mul(ED25519_BASEPOINT_POINT, c06SmallSc(3))
		q := NewEdwardsPoint().Sub(p, b3)
		return q.Add(q, b3)
	case 3: // -(-P) + 0
		q := NewEdwardsPoint().Neg(p)
		q.Neg(q)
		return q.Add(q, NewEdwardsPoint())
	}
	return p
}

func c06RPt(a *h.DiffArgs, o *h.DiffOut) *RistrettoPoint {
	enc, k := a.B(), a.N()
	p := NewRistrettoPoint()
	var cr CompressedRistretto
	_, err := cr.SetBytes(enc)
	if err == nil {
		_, err = p.SetCompressed(&cr)
	}
	if err != nil {
		o.Bool("rpt.invalid", true)
		p.Set(RISTRETTO_BASEPOINT_POINT)
	}
	switch k {
	case 1:
		q := NewRistrettoPoint().Add(p, RISTRETTO_BASEPOINT_POINT)
		return q.Sub(q, RISTRETTO_BASEPOINT_POINT)
	case 2:
		b3 := NewRistrettoPoint().Mul(RISTRETTO_BASEPOINT_POINT, c06SmallSc(3))
		q := NewRistrettoPoint().Sub(p, b3)
		return q.Add(q, b3)
	case 3:
		q := NewRistrettoPoint().Neg(p)
		q.Neg(q)
		return q.Add(q, NewRistrettoPoint())
	}
	return p
}

// ---- canonical outputs ----

func c06PtOut(o *h.DiffOut, tag string, p *EdwardsPoint) {
	if p == nil {
		o.Bytes(tag, []byte("nil"))
		return
	}
	b, err := p.MarshalBinary()
	o.Err(tag, err)
	o.Bytes(tag, b)
}

func c06RPtOut(o *h.DiffOut, tag string, p *RistrettoPoint) {
	if p == nil {
		o.Bytes(tag, []byte("nil"))
		return
	}
	b, err := p.MarshalBinary()
	o.Err(tag, err)
	o.Bytes(tag, b)
}
