//go:build verif

package scalar

// C17 — scalar digit recodings preserve the value within their digit bounds.
//
// Oracle: exact integer reconstruction with math/big (sum d_i * 2^(w*i) must
// equal the scalar's integer value, NOT merely be congruent mod L), the
// documented digit ranges, and — as a derived cross-check — the textbook
// recodings of verifref computed on big integers (value + ranges determine
// every one of these representations uniquely).

import (
	"bytes"
	"fmt"
	"math/big"
	"testing"

	"pgregory.net/rapid"
	h "verifh"
	ref "verifref"
)

type c17Case struct {
	S   h.Hex // 32 bytes, value < 2^255
	Cls string
}

func c17Gen(t *rapid.T) c17Case {
	b, cls := h.C17Scalar(t, "s")
	return c17Case{S: b, Cls: cls}
}

var c17Two252 = new(big.Int).Lsh(big.NewInt(1), 252)

// c17NonTrivial: scalar >= 2^252 (beyond what reduced scalars reach in the
// top digit), or drawn from a class built to propagate carries / sit on the
// 64-bit seams of the window extraction.
func c17NonTrivial(c c17Case) bool {
	if ref.FromLE(c.S).Cmp(c17Two252) >= 0 {
		return true
	}
	switch c.Cls {
	case "window-chain", "top-chain", "top-run", "runs", "pattern", "2^k-1", "dense", "seam", "limb", "top", "2^k+e":
		return true
	}
	return false
}

func c17Scalar(c c17Case) (*Scalar, *big.Int, bool) {
	if len(c.S) != ScalarSize || c.S[31]&0x80 != 0 {
		return nil, nil, false
	}
	s, err := NewFromBits(c.S)
	if err != nil {
		return nil, nil, false
	}
	return s, ref.FromLE(c.S), true
}

func c17Ints(d []int8) []int {
	out := make([]int, len(d))
	for i, v := range d {
		out[i] = int(v)
	}
	return out
}

// ------------------------------------------------------------------ Bits

func c17CheckBits(c c17Case) h.Result {
	r := h.NewR().Class(c.Cls).NT(c17NonTrivial(c))
	s, v, ok := c17Scalar(c)
	if !ok {
		return r.Class("malformed-case").Result()
	}
	bits := s.Bits()
	r.Eval(3)
	ds := make([]int, len(bits))
	for i, b := range bits {
		if b > 1 {
			return r.Fail("Scalar.Bits:digit-out-of-range", "s=%x i=%d bit=%d", []byte(c.S), i, b).Result()
		}
		ds[i] = int(b)
	}
	if bits[255] != 0 {
		r.Fail("Scalar.Bits:bit255-set", "s=%x", []byte(c.S))
	}
	if got := ref.C17DigitSum(ds, 1); got.Cmp(v) != 0 {
		r.Fail("Scalar.Bits:wrong-value", "s=%x reconstructed=%x", []byte(c.S), got)
	}
	if !bytes.Equal(s.inner[:], c.S) {
		r.Fail("Scalar.Bits:modified-receiver", "s=%x", []byte(c.S))
	}
	return r.Result()
}

func TestC17Bits(t *testing.T) { h.Run(t, c17Gen, c17CheckBits) }

// ------------------------------------------------------- NonAdjacentForm

func c17CheckNAF(c c17Case) h.Result {
	r := h.NewR().Class(c.Cls).NT(c17NonTrivial(c))
	s, v, ok := c17Scalar(c)
	if !ok {
		return r.Class("malformed-case").Result()
	}
	for w := uint(2); w <= 8; w++ {
		naf := s.NonAdjacentForm(w)
		ds := c17Ints(naf[:])
		r.Eval(3)
		if got := ref.C17DigitSum(ds, 1); got.Cmp(v) != 0 {
			return r.Fail("Scalar.NonAdjacentForm:wrong-value", "s=%x w=%d reconstructed=%x (diff %v)", []byte(c.S), w, got, new(big.Int).Sub(got, v)).Result()
		}
		bound := 1 << (w - 1)
		last := -1000
		for i, d := range ds {
			if d == 0 {
				continue
			}
			if d&1 == 0 {
				return r.Fail("Scalar.NonAdjacentForm:even-digit", "s=%x w=%d i=%d d=%d", []byte(c.S), w, i, d).Result()
			}
			if d >= bound || d <= -bound {
				return r.Fail("Scalar.NonAdjacentForm:digit-out-of-range", "s=%x w=%d i=%d d=%d", []byte(c.S), w, i, d).Result()
			}
			if i-last < int(w) {
				return r.Fail("Scalar.NonAdjacentForm:digits-too-close", "s=%x w=%d i=%d prev=%d", []byte(c.S), w, i, last).Result()
			}
			last = i
		}
		if last == 255 {
			r.Class("naf-digit-at-255")
		}
		// derived: the width-w NAF of an integer is unique
		want := ref.C17WNAF(v, w)
		for i := range ds {
			wd := 0
			if i < len(want) {
				wd = want[i]
			}
			if ds[i] != wd {
				return r.Fail("Scalar.NonAdjacentForm:differs-from-reference", "s=%x w=%d i=%d got=%d want=%d", []byte(c.S), w, i, ds[i], wd).Result()
			}
		}
		if !bytes.Equal(s.inner[:], c.S) {
			return r.Fail("Scalar.NonAdjacentForm:modified-receiver", "s=%x w=%d", []byte(c.S), w).Result()
		}
	}
	return r.Result()
}

func TestC17NAF(t *testing.T) { h.Run(t, c17Gen, c17CheckNAF) }

// -------------------------------------------------------------- ToRadix16

func c17CheckRadix16(c c17Case) h.Result {
	r := h.NewR().Class(c.Cls).NT(c17NonTrivial(c))
	s, v, ok := c17Scalar(c)
	if !ok {
		return r.Class("malformed-case").Result()
	}
	out := s.ToRadix16()
	ds := c17Ints(out[:])
	r.Eval(3)
	if got := ref.C17DigitSum(ds, 4); got.Cmp(v) != 0 {
		return r.Fail("Scalar.ToRadix16:wrong-value", "s=%x reconstructed=%x", []byte(c.S), got).Result()
	}
	for i, d := range ds {
		hi := 7
		if i == 63 {
			hi = 8 // documented: the last digit is not recentred and may reach 8
		}
		if d < -8 || d > hi {
			return r.Fail("Scalar.ToRadix16:digit-out-of-range", "s=%x i=%d d=%d", []byte(c.S), i, d).Result()
		}
	}
	if ds[63] == 8 {
		r.Class("radix16-top-digit-8")
	}
	want, top := ref.C17SignedRadix(v, 4, 64)
	for i := 0; i < 63; i++ {
		if ds[i] != want[i] {
			return r.Fail("Scalar.ToRadix16:differs-from-reference", "s=%x i=%d got=%d want=%d", []byte(c.S), i, ds[i], want[i]).Result()
		}
	}
	if big.NewInt(int64(ds[63])).Cmp(top) != 0 {
		return r.Fail("Scalar.ToRadix16:differs-from-reference", "s=%x i=63 got=%d want=%v", []byte(c.S), ds[63], top).Result()
	}
	if !bytes.Equal(s.inner[:], c.S) {
		r.Fail("Scalar.ToRadix16:modified-receiver", "s=%x", []byte(c.S))
	}
	return r.Result()
}

func TestC17Radix16(t *testing.T) { h.Run(t, c17Gen, c17CheckRadix16) }

// -------------------------------------------------------------- ToRadix2w

func c17CheckRadix2w(c c17Case) h.Result {
	r := h.NewR().Class(c.Cls).NT(c17NonTrivial(c))
	s, v, ok := c17Scalar(c)
	if !ok {
		return r.Class("malformed-case").Result()
	}
	for w := uint(6); w <= 8; w++ {
		hint := int(ToRadix2wSizeHint(w))
		// The documented size of the representation: ceil(256/w) digits, one
		// more for w = 8 (terminal carry).  Independent of the library.
		wantHint := (256 + int(w) - 1) / int(w)
		if w == 8 {
			wantHint++
		}
		r.Eval(4)
		if hint != wantHint {
			return r.Fail("ToRadix2wSizeHint:wrong", "w=%d got=%d want=%d", w, hint, wantHint).Result()
		}
		out := s.ToRadix2w(w)
		ds := c17Ints(out[:])
		// value: over the digits the size hint announces (what Pippenger reads) ...
		if got := ref.C17DigitSum(ds[:hint], w); got.Cmp(v) != 0 {
			return r.Fail("Scalar.ToRadix2w:wrong-value", "s=%x w=%d reconstructed=%x", []byte(c.S), w, got).Result()
		}
		// ... and nothing beyond it.
		for i := hint; i < len(ds); i++ {
			if ds[i] != 0 {
				return r.Fail("Scalar.ToRadix2w:nonzero-beyond-size-hint", "s=%x w=%d i=%d d=%d", []byte(c.S), w, i, ds[i]).Result()
			}
		}
		half := 1 << (w - 1)
		regular := hint // digits that must be centred
		if w == 8 {
			regular = hint - 1 // digits[32] only ever holds the terminal carry
			if ds[32] != 0 && ds[32] != 1 {
				return r.Fail("Scalar.ToRadix2w:terminal-carry-out-of-range", "s=%x d32=%d", []byte(c.S), ds[32]).Result()
			}
			if ds[32] == 1 {
				r.Class("radix256-terminal-carry")
			}
		}
		for i := 0; i < regular; i++ {
			if ds[i] < -half || ds[i] >= half {
				return r.Fail("Scalar.ToRadix2w:digit-out-of-range", "s=%x w=%d i=%d d=%d", []byte(c.S), w, i, ds[i]).Result()
			}
		}
		want, top := ref.C17SignedRadix(v, w, regular+1)
		for i := 0; i < regular; i++ {
			if ds[i] != want[i] {
				return r.Fail("Scalar.ToRadix2w:differs-from-reference", "s=%x w=%d i=%d got=%d want=%d", []byte(c.S), w, i, ds[i], want[i]).Result()
			}
		}
		rest := 0
		if w == 8 {
			rest = ds[32]
		}
		if big.NewInt(int64(rest)).Cmp(top) != 0 {
			return r.Fail("Scalar.ToRadix2w:differs-from-reference", "s=%x w=%d terminal got=%d want=%v", []byte(c.S), w, rest, top).Result()
		}
		if !bytes.Equal(s.inner[:], c.S) {
			return r.Fail("Scalar.ToRadix2w:modified-receiver", "s=%x w=%d", []byte(c.S), w).Result()
		}
	}
	return r.Result()
}

func TestC17Radix2w(t *testing.T) { h.Run(t, c17Gen, c17CheckRadix2w) }

// ------------------------------------------------ invalid width parameters

// The recodings only exist for w in 2..8 (NAF) and 6..8 (radix 2^w); any other
// width cannot be represented in the int8 digit arrays, and the code documents
// a panic ("invalid width parameter" / "invalid radix parameter").  Finite
// domain: enumerated.
type c17WidthCase struct {
	W uint
	S h.Hex
}

func c17CheckWidth(c c17WidthCase) h.Result {
	r := h.NewR().Class(fmt.Sprintf("w=%d", c.W)).NT(true)
	s, err := NewFromBits(c.S)
	if err != nil {
		return r.Class("malformed-case").Result()
	}
	r.Eval(3)
	p, _ := h.Catch(func() { _ = s.NonAdjacentForm(c.W) })
	if valid := c.W >= 2 && c.W <= 8; p == valid {
		r.Fail("Scalar.NonAdjacentForm:width-validation", "w=%d panicked=%v", c.W, p)
	}
	p, _ = h.Catch(func() { _ = s.ToRadix2w(c.W) })
	if valid := c.W >= 6 && c.W <= 8; p == valid {
		r.Fail("Scalar.ToRadix2w:width-validation", "w=%d panicked=%v", c.W, p)
	}
	p, _ = h.Catch(func() { _ = ToRadix2wSizeHint(c.W) })
	if valid := c.W >= 6 && c.W <= 8; p == valid {
		r.Fail("ToRadix2wSizeHint:width-validation", "w=%d panicked=%v", c.W, p)
	}
	return r.Result()
}

func TestC17Widths(t *testing.T) {
	var cases []c17WidthCase
	ws := []uint{}
	for w := uint(0); w <= 130; w++ {
		ws = append(ws, w)
	}
	ws = append(ws, 255, 256, 257, 1<<16, 1<<31, 1<<32-1, ^uint(0), ^uint(0)-1)
	if big := uint64(^uint(0)); big > 1<<32 { // widths beyond 32 bits exist on 64-bit targets only
		for _, w := range []uint64{1 << 32, 1<<32 + 6, 1 << 63} {
			ws = append(ws, uint(w))
		}
	}
	for _, w := range ws {
		for _, fill := range []byte{0x00, 0x7f, 0xff} {
			b := bytes.Repeat([]byte{fill}, 32)
			b[31] &= 0x7f
			cases = append(cases, c17WidthCase{W: w, S: b})
		}
	}
	h.RunList(t, cases, c17CheckWidth)
}

// --------------------------------------------- exhaustive small sub-domain

// Every value below 2^12 placed at the bottom, at each 64-bit seam of the
// window extraction (two alignments each), at a 29-bit offset and against the
// top of the 255-bit range, through all four recodings: a finite sub-domain
// that contains every local carry pattern up to 12 bits at the positions where
// the extraction changes words or ends.  Enumerated completely.
type c17SmallCase struct {
	V     uint32
	Shift uint
}

func c17CheckSmall(c c17SmallCase) h.Result {
	v := new(big.Int).Lsh(big.NewInt(int64(c.V)), c.Shift)
	v.And(v, new(big.Int).Sub(new(big.Int).Lsh(big.NewInt(1), 255), big.NewInt(1)))
	cc := c17Case{S: ref.ToLE(v, 32), Cls: fmt.Sprintf("small<<%d", c.Shift)}
	acc := h.NewR().Class(cc.Cls).NT(true)
	for _, f := range []func(c17Case) h.Result{c17CheckBits, c17CheckNAF, c17CheckRadix16, c17CheckRadix2w} {
		res := f(cc)
		acc.Eval(res.Evals)
		if res.Viol != nil {
			return acc.Fail(res.Viol.Sig, "%s", res.Viol.Detail).Result()
		}
	}
	return acc.Result()
}

func TestC17Small(t *testing.T) {
	var cases []c17SmallCase
	for _, sh := range []uint{0, 29, 58, 61, 122, 125, 186, 189, 242} {
		for v := uint32(0); v < 1<<12; v++ {
			cases = append(cases, c17SmallCase{V: v, Shift: sh})
		}
	}
	h.RunList(t, cases, c17CheckSmall)
}
