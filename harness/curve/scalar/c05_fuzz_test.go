//go:build verif

package scalar

import (
	"testing"

	h "verifh"
)

// Coverage-guided variant of the decoding-predicate property (thorough tier).
func FuzzC05Decode(f *testing.F) { h.Fuzz(f, c05GenDec, c05CheckDec) }
