//go:build verif && (386 || arm || mips || mipsle || wasm || mips64le || mips64 || riscv64 || loong64 || force32bit) && !force64bit

package scalar

// C20, 32-bit backend (constraint of constants_u32.go): 9 limbs of 29 bits, R = 2^261.
const (
	c20Backend        = "u32"
	c20W       uint   = 29
	c20NLimbs         = 9
	c20RBits   uint   = 261
	c20Mask    uint64 = uint64(low_29_bit_mask)
)
