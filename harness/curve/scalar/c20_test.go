//go:build verif

package scalar

// C20 — scalar constants equal their definitions in both radices.
// Values are read as raw limbs (reflection) and converted with the radix
// formula sum(limb_k * 2^(w k)); no library arithmetic on the value path.
//
// Coverage of package-level vars/consts (anchored files):
//   constants_u64.go / constants_u32.go: constL, constR, constRR, constLFACTOR  -> checked
//   scalar.go: BASEPOINT_ORDER -> checked; ScalarSize, ScalarWideSize -> checked (trivial sizes);
//              errScalarNotCanonical, errUnexpectedInputSize: error values, not checked
//   sc_minimal.go: order -> checked
//   scalar_u64.go low_52_bit_mask / scalar_u32.go low_29_bit_mask -> checked (2^w - 1)

import (
	"math/big"
	"testing"

	h "verifh"
	ref "verifref"
)

// Enc: limb encoding of the build that enumerated the case (part of the case identity).
type c20Case struct{ Name, Enc string }

var c20Names = []string{"constL", "constR", "constRR", "constLFACTOR", "BASEPOINT_ORDER", "order",
	"low_bit_mask", "ScalarSize", "ScalarWideSize"}

func c20pow2(k uint) *big.Int { return new(big.Int).Lsh(big.NewInt(1), k) }

// c20unpacked compares an unpackedScalar constant with want: exact integer
// equality, the documented number of limbs, every limb below 2^w.
func c20unpacked(r *h.R, sig string, u *unpackedScalar, want *big.Int) {
	r.Eval(1)
	l := h.C20Limbs(u)
	if len(l) != c20NLimbs {
		r.Fail(sig+":wrong-limb-count", "%d", len(l))
		return
	}
	for k, v := range l {
		if v>>c20W != 0 {
			r.Fail(sig+":limb-out-of-range", "limb %d = %#x", k, v)
			return
		}
	}
	if got := ref.C20RadixW(l, c20W); got.Cmp(want) != 0 {
		r.Fail(sig+":wrong-value", "limbs=%#x value=%v want=%v", l, got, want)
	}
}

func c20Check(c c20Case) h.Result {
	r := h.NewR().Class(c20Backend, c.Name)
	sig := "scalar." + c.Name
	R := c20pow2(c20RBits) // Montgomery radix: 2^260 (52-bit limbs) / 2^261 (29-bit limbs)
	trivial := false
	switch c.Name {
	case "constL":
		c20unpacked(r, sig, &constL, ref.L)
	case "constR":
		r.Eval(1)
		if c20RBits != c20W*c20NLimbs {
			r.Fail(sig+":radix-mismatch", "R = 2^%d but %d limbs of %d bits", c20RBits, c20NLimbs, c20W)
		}
		c20unpacked(r, sig, &constR, new(big.Int).Mod(R, ref.L))
	case "constRR":
		c20unpacked(r, sig, &constRR, new(big.Int).Mod(new(big.Int).Mul(R, R), ref.L))
	case "constLFACTOR":
		// L * LFACTOR = -1 (mod 2^w), LFACTOR < 2^w
		r.Eval(1)
		f := new(big.Int).SetUint64(uint64(constLFACTOR))
		t := new(big.Int).Mul(ref.L, f)
		t.Add(t, big.NewInt(1)).Mod(t, c20pow2(c20W))
		if t.Sign() != 0 || uint64(constLFACTOR)>>c20W != 0 {
			r.Fail(sig+":congruence-fails", "LFACTOR=%#x (L*LFACTOR+1) mod 2^%d = %v", uint64(constLFACTOR), c20W, t)
		}
	case "BASEPOINT_ORDER":
		r.Eval(1)
		l := h.C20Limbs(BASEPOINT_ORDER)
		if len(l) != 32 || ref.C20RadixW(l, 8).Cmp(ref.L) != 0 {
			r.Fail(sig+":wrong-value", "bytes=%x", l)
		}
	case "order":
		r.Eval(1)
		l := h.C20Limbs(order)
		if len(l) != 4 || ref.C20RadixW(l, 64).Cmp(ref.L) != 0 {
			r.Fail(sig+":wrong-value", "words=%#x", l)
		}
	case "low_bit_mask":
		r.Eval(1)
		if new(big.Int).SetUint64(c20Mask).Cmp(new(big.Int).Sub(c20pow2(c20W), big.NewInt(1))) != 0 {
			r.Fail(sig+":wrong-value", "%#x", c20Mask)
		}
	case "ScalarSize":
		trivial = true
		r.Eval(1)
		if ScalarSize != 32 {
			r.Fail(sig+":wrong-value", "%d", ScalarSize)
		}
	case "ScalarWideSize":
		trivial = true
		r.Eval(1)
		if ScalarWideSize != 64 {
			r.Fail(sig+":wrong-value", "%d", ScalarWideSize)
		}
	default:
		r.Fail("harness:unknown-case", "%q", c.Name)
	}
	return r.NT(!trivial).Result()
}

func TestC20ScalarConstants(t *testing.T) {
	h.SetExtra(t, "backend", c20Backend)
	var cases []c20Case
	for _, n := range c20Names {
		cases = append(cases, c20Case{Name: n, Enc: c20Backend})
	}
	h.RunList(t, cases, c20Check)
}
