//go:build verif

package scalar

// C05 — SetRandom(nil): "If rng is nil, crypto/rand.Reader will be used".

import (
	"bytes"
	"testing"

	h "verifh"
	ref "verifref"
)

type c05NilCase struct{ V int }

func c05CheckNil(c c05NilCase) h.Result {
	r := h.NewR().NT(true).Class("SetRandom(nil)").Eval(3)
	a, err1 := New().SetRandom(nil)
	b, err2 := New().SetRandom(nil)
	if err1 != nil || err2 != nil || a == nil || b == nil {
		return r.Fail("Scalar.SetRandom(nil):error", "%v %v", err1, err2).Result()
	}
	ab, bb := scBytes(a), scBytes(b)
	if bytes.Equal(ab, bb) || bytes.Equal(ab, make([]byte, 32)) {
		r.Fail("Scalar.SetRandom(nil):not-random", "%x %x", ab, bb)
	}
	for _, x := range [][]byte{ab, bb} {
		if ref.FromLE(x).Cmp(ref.L) >= 0 {
			r.Fail("Scalar.SetRandom(nil):not-canonical", "%x", x)
		}
	}
	return r.Result()
}

func TestC05NilEntropy(t *testing.T) { h.RunList(t, []c05NilCase{{0}}, c05CheckNil) }
