//go:build verif

package scalar

// C06 — all arithmetic backends are observationally identical: workload over
// every exported operation of curve/scalar.  Only the exported API is driven;
// the test lives in-package solely to record which limb backend was compiled.

import (
	"fmt"
	"testing"

	"pgregory.net/rapid"
	h "verifh"
	ref "verifref"
)

func c06Sc(b []byte) *Scalar {
	s, err := NewFromBits(b)
	if err != nil {
		// wrong length in a hand-edited replay: use zero, record nothing special
		return New()
	}
	return s
}

func c06ScOut(o *h.DiffOut, tag string, s *Scalar) {
	if s == nil {
		o.Bytes(tag, []byte("nil"))
		return
	}
	var b [ScalarSize]byte
	o.Err(tag, s.ToBytes(b[:]))
	o.Bytes(tag, b[:])
}

// c06NonZeroScalar draws a scalar that is not 0 mod L (Invert/BatchInvert of
// zero is documented as undefined); decided with the reference, never with
// the library.
func c06NonZeroScalar(t *rapid.T, c *h.DiffCase, label string) {
	b, _ := h.Scalar255(t, label)
	if ref.SMod(ref.FromLE(b)).Sign() == 0 {
		b = make([]byte, 32)
		b[0] = 1
	}
	c.PutB(b)
}

func c06ScalarOps() []h.DiffOp {
	return []h.DiffOp{
		{Name: "arith", Weight: 6,
			Covers: []string{"Scalar.Add", "Scalar.Sub", "Scalar.Mul", "Scalar.Neg", "Scalar.Reduce", "Scalar.Equal", "Scalar.IsCanonical", "Scalar.ConditionalSelect", "Scalar.Set", "Scalar.ToBytes", "NewFromBits", "Scalar.SetBits", "New"},
			Gen: func(t *rapid.T, c *h.DiffCase) {
				h.DiffScalar(t, c, "a")
				if rapid.IntRange(0, 7).Draw(t, "same") == 0 {
					c.PutB(c.B[0])
				} else {
					h.DiffScalar(t, c, "b")
				}
				c.PutN(rapid.IntRange(0, 1).Draw(t, "choice"))
			},
			Exec: func(a *h.DiffArgs, o *h.DiffOut) {
				x, y, ch := c06Sc(a.B()), c06Sc(a.B()), a.N()&1
				c06ScOut(o, "add", New().Add(x, y))
				c06ScOut(o, "sub", New().Sub(x, y))
				c06ScOut(o, "mul", New().Mul(x, y))
				c06ScOut(o, "neg", New().Neg(x))
				c06ScOut(o, "reduce", New().Reduce(x))
				o.Int("equal", int64(x.Equal(y)))
				o.Bool("canon", x.IsCanonical())
				s := New()
				s.ConditionalSelect(x, y, ch)
				c06ScOut(o, "select", s)
				// aliased receivers
				z := New().Set(x)
				c06ScOut(o, "add.alias", z.Add(z, y))
				z = New().Set(y)
				c06ScOut(o, "sub.alias", z.Sub(x, z))
				z = New().Set(x)
				c06ScOut(o, "sqr.alias", z.Mul(z, z))
				c06ScOut(o, "x.after", x)
			}},
		{Name: "mulchain", Weight: 2,
			Covers: []string{"Scalar.Mul", "Scalar.Add"},
			Gen: func(t *rapid.T, c *h.DiffCase) {
				h.DiffScalar(t, c, "a")
				h.DiffScalar(t, c, "b")
				c.PutN(rapid.IntRange(1, 40).Draw(t, "steps"))
			},
			Exec: func(a *h.DiffArgs, o *h.DiffOut) {
				x, y, n := c06Sc(a.B()), c06Sc(a.B()), a.N()
				acc := New().Set(x)
				for i := 0; i < n && i < 64; i++ {
					acc.Mul(acc, y)
					acc.Add(acc, x)
					y = New().Sub(y, acc)
				}
				c06ScOut(o, "acc", acc)
				c06ScOut(o, "y", y)
			}},
		{Name: "invert", Weight: 3,
			Covers: []string{"Scalar.Invert"},
			Gen:    func(t *rapid.T, c *h.DiffCase) { c06NonZeroScalar(t, c, "a") },
			Exec: func(a *h.DiffArgs, o *h.DiffOut) {
				x := c06Sc(a.B())
				c06ScOut(o, "inv", New().Invert(x))
				z := New().Set(x)
				c06ScOut(o, "inv.alias", z.Invert(z))
			}},
		{Name: "batchinvert", Weight: 2,
			Covers: []string{"Scalar.BatchInvert"},
			Gen: func(t *rapid.T, c *h.DiffCase) {
				n := rapid.IntRange(0, 12).Draw(t, "n")
				c.PutN(n)
				for i := 0; i < n; i++ {
					c06NonZeroScalar(t, c, fmt.Sprintf("a%d", i))
				}
			},
			Exec: func(a *h.DiffArgs, o *h.DiffOut) {
				n := a.N()
				var v []*Scalar
				for i := 0; i < n && i < 64; i++ {
					v = append(v, c06Sc(a.B()))
				}
				c06ScOut(o, "ret", New().BatchInvert(v))
				for _, s := range v {
					c06ScOut(o, "v", s)
				}
			}},
		{Name: "sumproduct", Weight: 2,
			Covers: []string{"Scalar.Sum", "Scalar.Product"},
			Gen: func(t *rapid.T, c *h.DiffCase) {
				n := rapid.IntRange(0, 12).Draw(t, "n")
				c.PutN(n)
				for i := 0; i < n; i++ {
					h.DiffScalar(t, c, fmt.Sprintf("a%d", i))
				}
			},
			Exec: func(a *h.DiffArgs, o *h.DiffOut) {
				n := a.N()
				var v []*Scalar
				for i := 0; i < n && i < 64; i++ {
					v = append(v, c06Sc(a.B()))
				}
				c06ScOut(o, "sum", New().Sum(v))
				c06ScOut(o, "product", New().Product(v))
			}},
		{Name: "decode32", Weight: 5,
			Covers: []string{"NewFromBits", "NewFromBytesModOrder", "NewFromCanonicalBytes", "Scalar.SetBits", "Scalar.SetBytesModOrder", "Scalar.SetCanonicalBytes", "Scalar.UnmarshalBinary", "Scalar.MarshalBinary", "ScMinimalVartime"},
			Gen: func(t *rapid.T, c *h.DiffCase) {
				if rapid.IntRange(0, 5).Draw(t, "hostile") == 0 {
					h.DiffSized(t, c, 32, "in")
				} else {
					h.DiffBytes32(t, c, "in")
				}
			},
			Exec: func(a *h.DiffArgs, o *h.DiffOut) {
				in := a.B()
				s, err := NewFromBits(in)
				o.Err("bits", err)
				c06ScOut(o, "bits", s)
				s, err = NewFromBytesModOrder(in)
				o.Err("modorder", err)
				c06ScOut(o, "modorder", s)
				s, err = NewFromCanonicalBytes(in)
				o.Err("canonical", err)
				c06ScOut(o, "canonical", s)
				r := One()
				s, err = r.SetBits(in)
				o.Err("setbits", err)
				c06ScOut(o, "setbits", s)
				r = One()
				s, err = r.SetBytesModOrder(in)
				o.Err("setmodorder", err)
				c06ScOut(o, "setmodorder", s)
				r = One()
				s, err = r.SetCanonicalBytes(in)
				o.Err("setcanonical", err)
				c06ScOut(o, "setcanonical", s)
				r = One()
				o.Err("unmarshal", r.UnmarshalBinary(in))
				c06ScOut(o, "unmarshal", r)
				mb, err := r.MarshalBinary()
				o.Err("marshal", err)
				o.Bytes("marshal", mb)
				o.Bool("minimal", ScMinimalVartime(in))
			}},
		{Name: "decode64", Weight: 4,
			Covers: []string{"NewFromBytesModOrderWide", "Scalar.SetBytesModOrderWide"},
			Gen: func(t *rapid.T, c *h.DiffCase) {
				switch rapid.IntRange(0, 6).Draw(t, "k") {
				case 0:
					h.DiffSized(t, c, 64, "in")
				case 1, 2: // low || high halves from the catalogue
					lo, _ := h.Bytes256(t, "lo")
					hi, _ := h.Bytes256(t, "hi")
					c.PutB(append(lo, hi...))
				case 3:
					b := make([]byte, 64)
					for i := range b {
						b[i] = 0xff
					}
					n := rapid.IntRange(0, 64).Draw(t, "n")
					for i := n; i < 64; i++ {
						b[i] = 0
					}
					c.PutB(b)
				default:
					c.PutB(h.UniformBytes(t, 64, "in"))
				}
			},
			Exec: func(a *h.DiffArgs, o *h.DiffOut) {
				in := a.B()
				s, err := NewFromBytesModOrderWide(in)
				o.Err("wide", err)
				c06ScOut(o, "wide", s)
				r := One()
				s, err = r.SetBytesModOrderWide(in)
				o.Err("setwide", err)
				c06ScOut(o, "setwide", s)
			}},
		{Name: "uint64", Weight: 1,
			Covers: []string{"NewFromUint64", "Scalar.SetUint64"},
			Gen: func(t *rapid.T, c *h.DiffCase) {
				c.PutB(h.UniformBytes(t, rapid.SampledFrom([]int{0, 1, 4, 8}).Draw(t, "n"), "x"))
			},
			Exec: func(a *h.DiffArgs, o *h.DiffOut) {
				var x uint64
				for i, b := range a.B() {
					if i < 8 {
						x |= uint64(b) << (8 * uint(i))
					}
				}
				c06ScOut(o, "new", NewFromUint64(x))
				c06ScOut(o, "set", One().SetUint64(x))
				c06ScOut(o, "sq", New().Mul(NewFromUint64(x), NewFromUint64(x)))
			}},
		{Name: "recode", Weight: 3,
			Covers: []string{"Scalar.Bits", "Scalar.NonAdjacentForm", "Scalar.ToRadix16", "Scalar.ToRadix2w", "ToRadix2wSizeHint"},
			Gen: func(t *rapid.T, c *h.DiffCase) {
				h.DiffScalar(t, c, "a")
				c.PutN(rapid.IntRange(0, 10).Draw(t, "w"))
			},
			Exec: func(a *h.DiffArgs, o *h.DiffOut) {
				x, w := c06Sc(a.B()), uint(a.N()&0xf)
				bits := x.Bits()
				o.Bytes("bits", bits[:])
				r16 := x.ToRadix16()
				o.Int8s("radix16", r16[:])
				// documented to panic on widths outside 2..8
				o.Panics("naf", func() {
					naf := x.NonAdjacentForm(w)
					o.Int8s("naf", naf[:])
				})
				// documented to panic on radix outside 4..8
				o.Panics("radix2w", func() {
					o.Int("hint", int64(ToRadix2wSizeHint(w)))
					d := x.ToRadix2w(w)
					o.Int8s("radix2w", d[:])
				})
			}},
		{Name: "random", Weight: 1,
			Covers: []string{"Scalar.SetRandom"},
			Gen: func(t *rapid.T, c *h.DiffCase) {
				h.DiffEntropy(t, c, rapid.SampledFrom([]int{0, 1, 63, 64, 65, 128}).Draw(t, "n"), "rng")
			},
			Exec: func(a *h.DiffArgs, o *h.DiffOut) {
				rd := h.NewDiffReader(a.B())
				s, err := New().SetRandom(rd)
				o.Err("random", err)
				c06ScOut(o, "random", s)
				s, err = New().SetRandom(rd)
				o.Err("random2", err)
				c06ScOut(o, "random2", s)
			}},
		{Name: "constants", Weight: 1,
			Covers: []string{"New", "One", "Scalar.One", "Scalar.Zero", "BASEPOINT_ORDER"},
			Exec: func(a *h.DiffArgs, o *h.DiffOut) {
				c06ScOut(o, "new", New())
				c06ScOut(o, "one", One())
				c06ScOut(o, "setone", NewFromUint64(7).One())
				c06ScOut(o, "setzero", NewFromUint64(7).Zero())
				c06ScOut(o, "order", BASEPOINT_ORDER)
				c06ScOut(o, "order.reduced", New().Reduce(BASEPOINT_ORDER))
				c06ScOut(o, "order-1", New().Sub(BASEPOINT_ORDER, One()))
				c06ScOut(o, "inv2", New().Invert(NewFromUint64(2)))
				var short [31]byte
				o.Err("tobytes.short", One().ToBytes(short[:]))
			}},
	}
}

func TestC06Scalar(t *testing.T) {
	h.RunDiffOps(t, "curve/scalar", h.DiffBackend(fmt.Sprintf("scalar-limbs=%d", len(unpackedScalar{}))), c06ScalarOps())
}
