//go:build verif && (amd64 || arm64 || ppc64le || ppc64 || s390x || force64bit) && !force32bit

package scalar

// C20, 64-bit backend (constraint of constants_u64.go): 5 limbs of 52 bits, R = 2^260.
const (
	c20Backend        = "u64"
	c20W       uint   = 52
	c20NLimbs         = 5
	c20RBits   uint   = 260
	c20Mask    uint64 = low_52_bit_mask
)
