//go:build verif

package scalar

// C05 — scalar arithmetic exact mod L on every 255-bit input.
// Oracle: math/big integers mod L (verifref).  In-package so that the
// unpackedScalar layer can be driven directly on both limb backends.

import (
	"bytes"
	"io"
	"math/big"
	"testing"

	"pgregory.net/rapid"
	h "verifh"
	ref "verifref"
)

func c05nt(cls ...string) bool {
	for _, c := range cls {
		switch c {
		case "reduced", "tiny", "anybits":
		default:
			return true
		}
	}
	return false
}

func mustBits(b []byte) *Scalar {
	s, err := NewFromBits(b)
	if err != nil {
		panic(err)
	}
	return s
}

func scBytes(s *Scalar) []byte {
	var out [32]byte
	if err := s.ToBytes(out[:]); err != nil {
		panic(err)
	}
	return out[:]
}

// ---------------------------------------------------------------- arithmetic

type c05ArithCase struct {
	A, B   h.Hex
	ACls   string
	BCls   string
	Choice int
}

func c05GenArith(t *rapid.T) c05ArithCase {
	a, ac := h.Scalar255(t, "a")
	b, bc := h.Scalar255(t, "b")
	if rapid.IntRange(0, 9).Draw(t, "same") == 0 {
		b, bc = append([]byte(nil), a...), ac
	}
	return c05ArithCase{A: a, B: b, ACls: ac, BCls: bc, Choice: rapid.IntRange(0, 1).Draw(t, "choice")}
}

func c05CheckArith(c c05ArithCase) h.Result {
	r := h.NewR().Class("a:"+c.ACls, "b:"+c.BCls)
	ai, bi := ref.FromLE(c.A), ref.FromLE(c.B)
	r.NT(c05nt(c.ACls, c.BCls) || ai.Cmp(ref.L) >= 0 || bi.Cmp(ref.L) >= 0)
	a, b := mustBits(c.A), mustBits(c.B)
	if !bytes.Equal(scBytes(a), c.A) {
		return r.Fail("Scalar.SetBits:changed-value", "a=%x got %x", []byte(c.A), scBytes(a)).Result()
	}
	chk := func(name string, got *Scalar, want *big.Int) {
		r.Eval(1)
		if !bytes.Equal(scBytes(got), ref.SEncode(want)) {
			r.Fail("Scalar."+name+":wrong-value", "a=%x b=%x got=%x want=%x", []byte(c.A), []byte(c.B), scBytes(got), ref.SEncode(want))
		}
		// inputs must not be modified
		if !bytes.Equal(scBytes(a), c.A) || !bytes.Equal(scBytes(b), c.B) {
			r.Fail("Scalar."+name+":modified-operand", "a=%x b=%x", []byte(c.A), []byte(c.B))
		}
	}
	chk("Add", New().Add(a, b), ref.SAdd(ai, bi))
	chk("Sub", New().Sub(a, b), ref.SSub(ai, bi))
	chk("Mul", New().Mul(a, b), ref.SMul(ai, bi))
	chk("Neg", New().Neg(a), ref.SNeg(ai))
	chk("Reduce", New().Reduce(a), ref.SMod(ai))
	// aliasing: receiver is an operand
	x := New().Set(a)
	chk("Add(alias)", x.Add(x, b), ref.SAdd(ai, bi))
	x = New().Set(b)
	chk("Sub(alias)", x.Sub(a, x), ref.SSub(ai, bi))
	x = New().Set(a)
	chk("Mul(alias)", x.Mul(x, x), ref.SMul(ai, ai))
	x = New().Set(a)
	chk("Neg(alias)", x.Neg(x), ref.SNeg(ai))
	x = New().Set(a)
	chk("Reduce(alias)", x.Reduce(x), ref.SMod(ai))
	// Equal ("returns 1 iff s and t are equal"): identical representations are
	// equal and different residues are not.  For two DIFFERENT representations of
	// the same residue (only possible with a non-reduced operand) the
	// documentation leaves open whether "equal" means the representation or the
	// element of Z/L: recorded, not asserted.
	r.Eval(1)
	switch eq := a.Equal(b) == 1; {
	case bytes.Equal(c.A, c.B):
		if !eq {
			r.Fail("Scalar.Equal:wrong", "a=%x b=%x (identical) got %d", []byte(c.A), []byte(c.B), a.Equal(b))
		}
	case ref.SMod(ai).Cmp(ref.SMod(bi)) != 0:
		if eq {
			r.Fail("Scalar.Equal:wrong", "a=%x b=%x (different residues) got %d", []byte(c.A), []byte(c.B), a.Equal(b))
		}
	case eq:
		r.Class("Equal(two-representations-of-one-residue)=1")
	default:
		r.Class("Equal(two-representations-of-one-residue)=0")
	}
	// ConditionalSelect
	r.Eval(1)
	sel := New()
	sel.ConditionalSelect(a, b, c.Choice)
	want := c.A
	if c.Choice == 1 {
		want = c.B
	}
	if !bytes.Equal(scBytes(sel), want) {
		r.Fail("Scalar.ConditionalSelect:wrong", "choice=%d", c.Choice)
	}
	// IsCanonical
	r.Eval(1)
	if a.IsCanonical() != (ai.Cmp(ref.L) < 0) {
		r.Fail("Scalar.IsCanonical:wrong", "a=%x got %v", []byte(c.A), a.IsCanonical())
	}
	return r.Result()
}

func TestC05Arith(t *testing.T) { h.Run(t, c05GenArith, c05CheckArith) }

// ------------------------------------------------------- decoding predicates

type c05DecCase struct {
	In  h.Hex
	Cls string
}

func c05GenDec(t *rapid.T) c05DecCase {
	b, c := h.Bytes256(t, "in")
	if rapid.IntRange(0, 5).Draw(t, "l252") == 0 {
		// values sharing the top 128 bits of L: exercise every word of the
		// ScMinimalVartime comparison loop.
		lb := ref.ToLE(ref.L, 32)
		k := rapid.IntRange(0, 3).Draw(t, "word")
		v := append([]byte(nil), lb...)
		switch rapid.IntRange(0, 2).Draw(t, "how") {
		case 0:
			copy(v[:8*k], h.Expand(rapid.Uint64().Draw(t, "fill"), 8*k))
		case 1:
			// +-1 in word k
			w := new(big.Int).Lsh(big.NewInt(1), uint(64*k))
			x := ref.FromLE(v)
			if rapid.Bool().Draw(t, "up") {
				x.Add(x, w)
			} else {
				x.Sub(x, w)
			}
			v = ref.ToLE(x, 32)
		default:
			for i := 0; i < 8*k; i++ {
				v[i] = 0xff
			}
		}
		b, c = v, "L-prefix"
	}
	return c05DecCase{In: b, Cls: c}
}

func c05CheckDec(c c05DecCase) h.Result {
	r := h.NewR().Class(c.Cls)
	v := ref.FromLE(c.In)
	canon := v.Cmp(ref.L) < 0
	r.NT(c05nt(c.Cls) || !canon)
	if canon {
		r.Class("canonical")
	} else {
		r.Class("noncanonical")
	}
	in := append([]byte(nil), c.In...)

	r.Eval(1)
	if got := ScMinimalVartime(in); got != canon {
		r.Fail("ScMinimalVartime:wrong-decision", "in=%x got %v want %v", in, got, canon)
	}
	r.Eval(1)
	s, err := NewFromBytesModOrder(in)
	if err != nil || !bytes.Equal(scBytes(s), ref.SEncode(v)) {
		r.Fail("Scalar.SetBytesModOrder:wrong-value", "in=%x err=%v", in, err)
	}
	r.Eval(1)
	pre := mustBits(bytes.Repeat([]byte{0x11}, 32))
	ret, err := pre.SetCanonicalBytes(in)
	if canon {
		if err != nil || ret != pre || !bytes.Equal(scBytes(pre), in) {
			r.Fail("Scalar.SetCanonicalBytes:rejected-canonical", "in=%x err=%v", in, err)
		}
	} else {
		if err == nil || ret != nil {
			r.Fail("Scalar.SetCanonicalBytes:accepted-noncanonical", "in=%x", in)
		}
		// nothing documents the receiver after a refusal: untouched or zero, but
		// not the refused value (in whole or in part)
		if got := scBytes(pre); !bytes.Equal(got, bytes.Repeat([]byte{0x11}, 32)) && !bytes.Equal(got, make([]byte, 32)) {
			r.Fail("Scalar.SetCanonicalBytes:receiver-modified-on-error", "in=%x receiver=%x", in, got)
		}
	}
	r.Eval(1)
	var u Scalar
	err = u.UnmarshalBinary(in)
	if (err == nil) != canon {
		r.Fail("Scalar.UnmarshalBinary:wrong-decision", "in=%x err=%v", in, err)
	}
	if canon {
		mb, _ := u.MarshalBinary()
		if !bytes.Equal(mb, in) {
			r.Fail("Scalar.MarshalBinary:roundtrip", "in=%x out=%x", in, mb)
		}
		// the returned slice is the caller's
		for i := range mb {
			mb[i] ^= 0xa5
		}
		if !bytes.Equal(scBytes(&u), in) {
			r.Fail("Scalar.MarshalBinary:returned-slice-aliases-the-receiver", "in=%x", in)
		}
	}
	r.Eval(1)
	s2, err := NewFromCanonicalBytes(in)
	if (err == nil) != canon || (canon && !bytes.Equal(scBytes(s2), in)) {
		r.Fail("NewFromCanonicalBytes:wrong-decision", "in=%x err=%v", in, err)
	}
	// SetBits masks only bit 255 and does not reduce.
	r.Eval(1)
	s3 := mustBits(in)
	masked := append([]byte(nil), in...)
	masked[31] &= 0x7f
	if !bytes.Equal(scBytes(s3), masked) {
		r.Fail("Scalar.SetBits:wrong", "in=%x", in)
	}
	if s3.IsCanonical() != (ref.FromLE(masked).Cmp(ref.L) < 0) {
		r.Fail("Scalar.IsCanonical:wrong", "in=%x", masked)
	}
	if !bytes.Equal(in, c.In) {
		r.Fail("scalar-decoders:input-modified", "in=%x", []byte(c.In))
	}
	return r.Result()
}

func TestC05Decode(t *testing.T) { h.Run(t, c05GenDec, c05CheckDec) }

// ------------------------------------------------------------ wide reduction

type c05WideCase struct {
	In  h.Hex
	Cls string
}

func c05GenWide(t *rapid.T) c05WideCase {
	k := rapid.IntRange(0, 5).Draw(t, "k")
	switch k {
	case 0, 1:
		lo, lc := h.Int256(t, "lo")
		hi, hc := h.Int256(t, "hi")
		v := new(big.Int).Lsh(hi, 256)
		v.Add(v, lo)
		return c05WideCase{In: ref.ToLE(v, 64), Cls: "hi:" + hc + "/lo:" + lc}
	case 2:
		// q*L + e, q up to 2^259
		q := new(big.Int).SetBytes(h.UniformBytes(t, 33, "q"))
		q.Rsh(q, uint(rapid.IntRange(5, 263).Draw(t, "sh")))
		v := new(big.Int).Mul(q, ref.L)
		v.Add(v, big.NewInt(int64(rapid.IntRange(-2, 2).Draw(t, "e"))))
		if v.Sign() < 0 {
			v.SetInt64(0)
		}
		v.Mod(v, new(big.Int).Lsh(big.NewInt(1), 512))
		return c05WideCase{In: ref.ToLE(v, 64), Cls: "qL+e"}
	case 3:
		b := bytes.Repeat([]byte{0xff}, 64)
		n := rapid.IntRange(0, 64).Draw(t, "n")
		for i := 0; i < n; i++ {
			b[rapid.IntRange(0, 63).Draw(t, "i")] = rapid.Byte().Draw(t, "v")
		}
		return c05WideCase{In: b, Cls: "ones"}
	default:
		return c05WideCase{In: h.UniformBytes(t, 64, "u"), Cls: "uniform"}
	}
}

type c05Reader struct {
	b   []byte
	eof bool // the read delivering the last byte also returns io.EOF (legal for an io.Reader)
}

func (r *c05Reader) Read(p []byte) (int, error) {
	// deliberately short reads: SetRandom must use io.ReadFull semantics
	n := len(p)
	if n > 7 {
		n = 7
	}
	if n > len(r.b) {
		n = len(r.b)
	}
	copy(p, r.b[:n])
	r.b = r.b[n:]
	if r.eof && len(r.b) == 0 {
		return n, io.EOF
	}
	return n, nil
}

func c05CheckWide(c c05WideCase) h.Result {
	r := h.NewR().Class(c.Cls).NT(c.Cls != "uniform")
	v := ref.FromLE(c.In)
	want := ref.SEncode(v)
	in := append([]byte(nil), c.In...)
	r.Eval(3)
	s, err := NewFromBytesModOrderWide(in)
	if err != nil || !bytes.Equal(scBytes(s), want) {
		r.Fail("Scalar.SetBytesModOrderWide:wrong-value", "in=%x got=%x want=%x err=%v", in, scBytes(s), want, err)
	}
	pre := mustBits(bytes.Repeat([]byte{0x22}, 32))
	ret, err := pre.SetBytesModOrderWide(in)
	if err != nil || ret != pre || !bytes.Equal(scBytes(pre), want) {
		r.Fail("Scalar.SetBytesModOrderWide:wrong-value", "receiver form; in=%x", in)
	}
	s2, err := New().SetRandom(&c05Reader{b: append([]byte(nil), in...), eof: in[0]&1 == 1})
	if err != nil || !bytes.Equal(scBytes(s2), want) {
		r.Fail("Scalar.SetRandom:wrong-value", "in=%x err=%v", in, err)
	}
	if !bytes.Equal(in, c.In) {
		r.Fail("Scalar.SetBytesModOrderWide:input-modified", "")
	}
	return r.Result()
}

func TestC05Wide(t *testing.T) { h.Run(t, c05GenWide, c05CheckWide) }

// ------------------------------------------- inversion, products and sums

type c05SliceCase struct {
	Vals []h.Hex
	Cls  []string
}

func c05GenSlice(t *rapid.T) c05SliceCase {
	n := rapid.IntRange(0, 12).Draw(t, "n")
	if rapid.IntRange(0, 19).Draw(t, "big") == 0 {
		n = rapid.IntRange(13, 40).Draw(t, "n2")
	}
	var c c05SliceCase
	if rapid.IntRange(0, 7).Draw(t, "many-large") == 0 {
		// MANY values, all at the top of the 255-bit range: an accumulator that
		// is not reduced after every step runs out of limb headroom only after
		// dozens of such terms (and much later on the 29-bit backend)
		n = rapid.IntRange(30, 200).Draw(t, "n3")
		for i := 0; i < n; i++ {
			b := bytes.Repeat([]byte{0xff}, 32)
			b[31] = 0x7f
			b[rapid.IntRange(0, 30).Draw(t, "pos")] -= byte(rapid.IntRange(0, 3).Draw(t, "dec"))
			c.Vals = append(c.Vals, b)
			c.Cls = append(c.Cls, "many-top")
		}
		return c
	}
	for i := 0; i < n; i++ {
		b, cl := h.Scalar255(t, "v")
		c.Vals = append(c.Vals, b)
		c.Cls = append(c.Cls, cl)
	}
	return c
}

func c05CheckSlice(c c05SliceCase) h.Result {
	r := h.NewR().Class(c.Cls...)
	nt := c05nt(c.Cls...)
	n := len(c.Vals)
	if n == 0 {
		r.Class("empty")
		nt = true
	}
	vals := make([]*big.Int, n)
	scs := make([]*Scalar, n)
	allNonZero := true
	prod, sum := big.NewInt(1), big.NewInt(0)
	for i, b := range c.Vals {
		vals[i] = ref.FromLE(b)
		scs[i] = mustBits(b)
		if vals[i].Cmp(ref.L) >= 0 {
			nt = true
		}
		if ref.SMod(vals[i]).Sign() == 0 {
			allNonZero = false
		}
		prod = ref.SMul(prod, vals[i])
		sum = ref.SAdd(sum, vals[i])
	}
	r.NT(nt)
	r.Eval(2)
	if got := New().Product(scs); !bytes.Equal(scBytes(got), ref.SEncode(prod)) {
		r.Fail("Scalar.Product:wrong-value", "vals=%v got=%x want=%x", c.Vals, scBytes(got), ref.SEncode(prod))
	}
	if got := New().Sum(scs); !bytes.Equal(scBytes(got), ref.SEncode(sum)) {
		r.Fail("Scalar.Sum:wrong-value", "vals=%v got=%x want=%x", c.Vals, scBytes(got), ref.SEncode(sum))
	}
	for i := range scs {
		if !bytes.Equal(scBytes(scs[i]), c.Vals[i]) {
			r.Fail("Scalar.Product/Sum:modified-operand", "i=%d", i)
		}
	}
	if !allNonZero {
		// Invert/BatchInvert of 0 mod L is documented undefined: not asserted.
		return r.Class("has-zero").Result()
	}
	for i := range scs {
		r.Eval(1)
		inv := New().Invert(scs[i])
		if !bytes.Equal(scBytes(inv), ref.SEncode(ref.SInv(vals[i]))) {
			r.Fail("Scalar.Invert:wrong-value", "x=%x got=%x", []byte(c.Vals[i]), scBytes(inv))
		}
		al := New().Set(scs[i])
		al.Invert(al)
		if !bytes.Equal(scBytes(al), ref.SEncode(ref.SInv(vals[i]))) {
			r.Fail("Scalar.Invert:wrong-value", "aliased; x=%x", []byte(c.Vals[i]))
		}
	}
	r.Eval(1)
	ret := New().BatchInvert(scs)
	if !bytes.Equal(scBytes(ret), ref.SEncode(ref.SInv(prod))) {
		r.Fail("Scalar.BatchInvert:wrong-product", "vals=%v got=%x want=%x", c.Vals, scBytes(ret), ref.SEncode(ref.SInv(prod)))
	}
	for i := range scs {
		if !bytes.Equal(scBytes(scs[i]), ref.SEncode(ref.SInv(vals[i]))) {
			r.Fail("Scalar.BatchInvert:wrong-element", "i=%d x=%x got=%x", i, []byte(c.Vals[i]), scBytes(scs[i]))
		}
	}
	return r.Result()
}

func TestC05Slices(t *testing.T) { h.Run(t, c05GenSlice, c05CheckSlice) }

// ----------------------------------------------- the unpacked (limb) layer

type c05UnpCase struct {
	A, B h.Hex // reduced values: the documented domain of the limb routines
	ACls string
	BCls string
}

func c05GenUnp(t *rapid.T) c05UnpCase {
	a, ac := h.ReducedScalar(t, "a")
	b, bc := h.ReducedScalar(t, "b")
	return c05UnpCase{A: a, B: b, ACls: ac, BCls: bc}
}

var c05R = new(big.Int).Lsh(big.NewInt(1), c05RBits) // Montgomery radix of this backend

func c05CheckUnp(c c05UnpCase) h.Result {
	r := h.NewR().Class("a:"+c.ACls, "b:"+c.BCls).NT(c05nt(c.ACls, c.BCls))
	ai, bi := ref.FromLE(c.A), ref.FromLE(c.B)
	ua := func() *unpackedScalar { return newUnpackedScalar().SetBytes(c.A) }
	ub := func() *unpackedScalar { return newUnpackedScalar().SetBytes(c.B) }
	val := func(u *unpackedScalar) *big.Int {
		var out [32]byte
		u.ToBytes(out[:])
		return ref.FromLE(out[:])
	}
	rinv := ref.SInv(c05R)
	chk := func(name string, got *unpackedScalar, want *big.Int) {
		r.Eval(1)
		if val(got).Cmp(ref.SMod(want)) != 0 {
			r.Fail("unpackedScalar."+name+":wrong-value", "a=%x b=%x got=%x want=%x", []byte(c.A), []byte(c.B), val(got), ref.SMod(want))
		}
	}
	chk("SetBytes/ToBytes", ua(), ai)
	chk("Add", newUnpackedScalar().Add(ua(), ub()), ref.SAdd(ai, bi))
	chk("Sub", newUnpackedScalar().Sub(ua(), ub()), ref.SSub(ai, bi))
	chk("Mul", newUnpackedScalar().Mul(ua(), ub()), ref.SMul(ai, bi))
	chk("Square", newUnpackedScalar().Square(ua()), ref.SMul(ai, ai))
	chk("MontgomeryMul", newUnpackedScalar().MontgomeryMul(ua(), ub()), ref.SMul(ref.SMul(ai, bi), rinv))
	chk("MontgomerySquare", newUnpackedScalar().MontgomerySquare(ua()), ref.SMul(ref.SMul(ai, ai), rinv))
	chk("ToMontgomery", newUnpackedScalar().ToMontgomery(ua()), ref.SMul(ai, c05R))
	chk("FromMontgomery", newUnpackedScalar().FromMontgomery(ua()), ref.SMul(ai, rinv))
	if ai.Sign() != 0 {
		chk("Invert", newUnpackedScalar().Invert(ua()), ref.SInv(ai))
	}
	return r.Result()
}

func TestC05Unpacked(t *testing.T) { h.Run(t, c05GenUnp, c05CheckUnp) }

// Wrong-length inputs: every byte-taking scalar constructor rejects with an
// error and leaves the receiver unchanged.
type c05LenCase struct {
	N    int
	Fill byte
}

func c05CheckLen(c c05LenCase) h.Result {
	r := h.NewR().Class("len").NT(true)
	in := bytes.Repeat([]byte{c.Fill}, c.N)
	marker := bytes.Repeat([]byte{0x33}, 32)
	try := func(name string, nominal int, f func(s *Scalar) (*Scalar, error)) {
		r.Eval(1)
		s := mustBits(marker)
		var ret *Scalar
		var err error
		if p, v := h.Catch(func() { ret, err = f(s) }); p {
			r.Fail("Scalar."+name+":panic-on-length", "len=%d: %v", c.N, v)
			return
		}
		if c.N != nominal {
			if err == nil || ret != nil {
				r.Fail("Scalar."+name+":accepted-wrong-length", "len=%d", c.N)
			}
			if !bytes.Equal(scBytes(s), marker) {
				r.Fail("Scalar."+name+":receiver-modified-on-error", "len=%d", c.N)
			}
		}
	}
	try("SetBytesModOrder", 32, func(s *Scalar) (*Scalar, error) { return s.SetBytesModOrder(in) })
	try("SetBits", 32, func(s *Scalar) (*Scalar, error) { return s.SetBits(in) })
	try("SetBytesModOrderWide", 64, func(s *Scalar) (*Scalar, error) { return s.SetBytesModOrderWide(in) })
	if c.N != 32 || c.Fill&0xf0 == 0 {
		try("SetCanonicalBytes", 32, func(s *Scalar) (*Scalar, error) { return s.SetCanonicalBytes(in) })
		try("UnmarshalBinary", 32, func(s *Scalar) (*Scalar, error) {
			if err := s.UnmarshalBinary(in); err != nil {
				return nil, err
			}
			return s, nil
		})
	}
	r.Eval(1)
	out := make([]byte, c.N)
	err := mustBits(marker).ToBytes(out)
	if (err == nil) != (c.N == 32) {
		r.Fail("Scalar.ToBytes:wrong-length-decision", "len=%d err=%v", c.N, err)
	}
	return r.Result()
}

func TestC05Lengths(t *testing.T) {
	var cases []c05LenCase
	for n := 0; n <= 130; n++ {
		cases = append(cases, c05LenCase{N: n, Fill: 0x01}, c05LenCase{N: n, Fill: 0xff})
	}
	h.RunList(t, cases, c05CheckLen)
}

// The same checks with four cases at a time, one goroutine each (h.RunPar): no
// hidden shared state in the scalar arithmetic (batch inversion, products and
// sums allocate per call today).
func TestC05ParSlices(t *testing.T) { h.RunPar(t, 4, c05GenSlice, c05CheckSlice) }
func TestC05ParArith(t *testing.T)  { h.RunPar(t, 4, c05GenArith, c05CheckArith) }
