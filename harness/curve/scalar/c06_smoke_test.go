//go:build verif

package scalar_test

import (
	"testing"

	"github.com/oasisprotocol/curve25519-voi/curve/scalar"
	"pgregory.net/rapid"
	h "verifh"
)

type c06SmokeCase struct {
	A, B h.Hex
	Cls  string
}

func c06SmokeGen(t *rapid.T) c06SmokeCase {
	a, ac := h.Scalar255(t, "a")
	b, bc := h.Scalar255(t, "b")
	return c06SmokeCase{A: a, B: b, Cls: ac + "/" + bc}
}

func c06SmokeExec(c c06SmokeCase) ([]byte, []string, bool) {
	a, _ := scalar.NewFromBits(c.A)
	b, _ := scalar.NewFromBits(c.B)
	var out [32]byte
	scalar.New().Mul(a, b).ToBytes(out[:])
	return out[:], []string{c.Cls}, true
}

func TestC06Smoke(t *testing.T) { h.RunDiff(t, c06SmokeGen, c06SmokeExec) }
