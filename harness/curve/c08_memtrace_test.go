//go:build verif

package curve

// C08 layer 2b: the set of memory locations a constant-time table lookup READS
// must not depend on the secret digit.  The guard-page layer shows that every
// digit touches both sides of every split of the table; it cannot show that
// the access set is the same for all digits (a lookup that always touches the
// first and last entry and then indexes directly would pass).  This worker is
// run under valgrind's lackey tool with --trace-mem=yes: for each of the
// three constant-time lookup tables it makes 17 copies of one table at
// different addresses, announces them, and looks digit d (-8..8) up in copy d
// only.  The driver (props.d/C08.py) collects, per copy, the (offset, size)
// pairs of all loads that fall into it; they must be equal for all 17 digits
// and must cover every entry.  Copies are WRITTEN while they are set up (loads
// then come from the master), so the only loads from a copy are the lookup's.

import (
	"fmt"
	"os"
	"testing"
	"unsafe"

	"github.com/oasisprotocol/curve25519-voi/curve/scalar"
)

var c08MemSink byte

func TestC08MemWorker(t *testing.T) {
	if os.Getenv("C08_MEM") == "" {
		t.Skip("runs only under the memory tracer (driver post step)")
	}
	s, _ := scalar.NewFromBytesModOrderWide(make([]byte, 64))
	_ = s
	var P EdwardsPoint
	P.double(ED25519_BASEPOINT_POINT) // some non-trivial point
	const n = 17
	type slot struct {
		routine string
		digit   int
		base    uintptr
		size    uintptr
	}
	var slots []slot
	// one arena for everything, never moved or collected (GOGC=off in the driver)
	arena := make([]byte, 1<<20)
	off := uintptr(0)
	carve := func(size uintptr) unsafe.Pointer {
		off = (off + 63) &^ 63
		p := unsafe.Pointer(&arena[off])
		off += size + 64
		if int(off) > len(arena) {
			panic("c08: arena too small")
		}
		return p
	}

	pn := newProjectiveNielsPointLookupTable(&P)
	var pnC [n]*projectiveNielsPointLookupTable
	for i := range pnC {
		pnC[i] = (*projectiveNielsPointLookupTable)(carve(unsafe.Sizeof(pn)))
		*pnC[i] = pn
		slots = append(slots, slot{"projectiveNielsPointLookupTable.Lookup", i - 8, uintptr(unsafe.Pointer(pnC[i])), unsafe.Sizeof(pn)})
	}
	an := newAffineNielsPointLookupTable(&P)
	var anC [n]*affineNielsPointLookupTable
	for i := range anC {
		anC[i] = (*affineNielsPointLookupTable)(carve(unsafe.Sizeof(an)))
		*anC[i] = an
		slots = append(slots, slot{"affineNielsPointLookupTable.Lookup", i - 8, uintptr(unsafe.Pointer(anC[i])), unsafe.Sizeof(an)})
	}
	var cpC [n]*cachedPointLookupTable
	if supportsVectorizedEdwards {
		cp := newCachedPointLookupTable(&P)
		for i := range cpC {
			cpC[i] = (*cachedPointLookupTable)(carve(unsafe.Sizeof(cp)))
			*cpC[i] = cp
			slots = append(slots, slot{"cachedPointLookupTable.Lookup", i - 8, uintptr(unsafe.Pointer(cpC[i])), unsafe.Sizeof(cp)})
		}
	}
	for _, sl := range slots {
		fmt.Printf("C08MEM %s %d %x %d\n", sl.routine, sl.digit, sl.base, sl.size)
	}
	os.Stdout.Sync()
	for i := 0; i < n; i++ {
		d := int8(i - 8)
		a := pnC[i].Lookup(d)
		b := anC[i].Lookup(d)
		c08MemSink += *(*byte)(unsafe.Pointer(&a)) + *(*byte)(unsafe.Pointer(&b))
		if cpC[i] != nil {
			c := cpC[i].Lookup(d)
			c08MemSink += *(*byte)(unsafe.Pointer(&c))
		}
	}
	fmt.Println("C08MEM-DONE")
}
