//go:build verif

package curve

// C20 — the constants still equal their definitions AFTER ordinary use of the
// API that hands them out: points returned by table accessors used as
// arithmetic receivers, marshalled constants written to, an expanded
// basepoint re-used for another point, torsion points used as operands.  The
// same exhaustive enumerations as TestC20CurveConstants / TestC20Torsion /
// TestC20VectorTables are repeated afterwards.

import (
	"testing"

	h "verifh"
)

func c20OrdinaryUse() {
	q := NewEdwardsPoint().MulByCofactor(ED25519_BASEPOINT_POINT)
	for _, tbl := range []*EdwardsBasepointTable{ED25519_BASEPOINT_TABLE, NewEdwardsBasepointTable(q)} {
		acc := tbl.Basepoint()
		acc.Add(acc, q)
		acc.double(acc)
	}
	racc := RISTRETTO_BASEPOINT_TABLE.Basepoint()
	racc.Add(racc, racc)
	for _, m := range []interface{ MarshalBinary() ([]byte, error) }{ED25519_BASEPOINT_POINT, ED25519_BASEPOINT_COMPRESSED,
		RISTRETTO_BASEPOINT_POINT, RISTRETTO_BASEPOINT_COMPRESSED} {
		b, _ := m.MarshalBinary()
		for i := range b {
			b[i] ^= 0xa5
		}
	}
	// an expanded basepoint that is re-used for another point
	ep := NewExpandedEdwardsPoint(ED25519_BASEPOINT_POINT)
	got := ep.Point()
	got.Add(got, q)
	ep.SetEdwardsPoint(q)
	rp := NewExpandedRistrettoPoint(RISTRETTO_BASEPOINT_POINT)
	rp.SetRistrettoPoint(NewRistrettoPoint().Add(RISTRETTO_BASEPOINT_POINT, RISTRETTO_BASEPOINT_POINT))
	// torsion points as operands and receivers of copies
	for _, tp := range EIGHT_TORSION {
		x := NewEdwardsPoint().Set(tp)
		x.Add(x, q)
		NewEdwardsPoint().Add(tp, tp)
	}
}

func TestC20AfterUse(t *testing.T) {
	c20OrdinaryUse()
	var cases []c20Case
	for _, n := range c20ConstNames {
		cases = append(cases, c20Case{Name: n, Enc: c20Backend})
	}
	h.RunList(t, cases, c20CheckConst)
}

func TestC20AfterUseTorsion(t *testing.T) {
	c20OrdinaryUse()
	var cases []c20Case
	for i := 0; i <= 8; i++ {
		cases = append(cases, c20Case{Name: "EIGHT_TORSION", Enc: c20Backend, I: i})
	}
	h.RunList(t, cases, c20CheckTorsion)
}

