//go:build verif

package curve_test

// C07 (curve level) — curve.MontgomeryPoint.Mul is the Montgomery ladder of
// RFC 7748 for every (unclamped) scalar below 2^255 and every u, Equal
// compares u-coordinates modulo p, and SetEdwards composed with the
// fixed-base Edwards multiplication is the same function as the ladder on
// u = 9 (identity -> 0).

import (
	"bytes"
	"math/big"
	"testing"

	"github.com/oasisprotocol/curve25519-voi/curve"
	"github.com/oasisprotocol/curve25519-voi/curve/scalar"
	"pgregory.net/rapid"
	h "verifh"
	ref "verifref"
)

func c07Scalar(b []byte) *scalar.Scalar {
	s, err := scalar.NewFromBits(b)
	if err != nil {
		panic(err)
	}
	return s
}

func c07MontPoint(b []byte) *curve.MontgomeryPoint {
	p, err := curve.NewMontgomeryPoint().SetBytes(b)
	if err != nil {
		panic(err)
	}
	return p
}

// ------------------------------------------------------------------- Mul

type c07MontMulCase struct {
	K, U       h.Hex // K < 2^255, not clamped
	KCls, UCls string
	HasPt      bool
	Pt         h.PointSpec // when HasPt: U is u([A]B+T_J) (possibly with bit 255 set)
}

func c07GenMontMul(t *rapid.T) c07MontMulCase {
	var c c07MontMulCase
	switch rapid.IntRange(0, 9).Draw(t, "kk") {
	case 0: // multiples of the group order and neighbours (result at or next to infinity)
		m := rapid.IntRange(0, 7).Draw(t, "m")
		e := rapid.IntRange(-2, 2).Draw(t, "e")
		v := new(big.Int).Mul(big.NewInt(int64(m)), ref.L)
		v.Add(v, big.NewInt(int64(e)))
		if v.Sign() < 0 {
			v.SetInt64(0)
		}
		c.K, c.KCls = ref.ToLE(v, 32), "mL+e"
	case 1: // tiny
		c.K, c.KCls = ref.ToLE(big.NewInt(int64(rapid.IntRange(0, 40).Draw(t, "tiny"))), 32), "tiny"
	default:
		c.K, c.KCls = h.Scalar255(t, "k")
	}
	if rapid.IntRange(0, 2).Draw(t, "withpt") == 0 {
		c.HasPt = true
		c.Pt = h.GenPointSpec(t, "pt", rapid.Bool().Draw(t, "cheap"))
		c.U, c.UCls = ref.FEncode(c.Pt.Ref().MontgomeryU()), "curve-spec:"+c.Pt.Cls
		if rapid.IntRange(0, 3).Draw(t, "b255") == 0 {
			c.U[31] |= 0x80
		}
	} else {
		c.U, c.UCls = h.C07U(t, "u")
	}
	return c
}

func c07CheckMontMul(c c07MontMulCase) h.Result {
	r := h.NewR().Class("k:"+c.KCls, "u:"+c.UCls)
	if len(c.K) != 32 || len(c.U) != 32 || c.K[31]&0x80 != 0 {
		return r.Fail("harness:bad-case", "").Result()
	}
	k, u := append([]byte(nil), c.K...), append([]byte(nil), c.U...)
	ki := ref.FromLE(k)
	raw := append([]byte(nil), u...)
	raw[31] &= 0x7f
	uv := ref.FromLE(raw)
	onCurve := ref.X25519OnCurve(uv)
	if !onCurve {
		r.Class("twist")
	}
	if ki.Bit(0) == 1 {
		r.Class("odd-scalar")
	}
	r.NT(!onCurve || uv.Cmp(ref.P) >= 0 || u[31]&0x80 != 0 || h.C07ClampedWrongWay(k) || (c.HasPt && c.Pt.J%8 != 0))

	want := ref.X25519Unclamped(k, u)
	if c.HasPt {
		// mathematical cross-check through the Edwards reference: u([k]P)
		p := c.Pt.Ref()
		if ref.FMod(uv).Cmp(p.MontgomeryU()) != 0 {
			return r.Fail("harness:bad-case", "U is not u(Pt)").Result()
		}
		if m := ref.FEncode(ref.Mul(ki, p).MontgomeryU()); !bytes.Equal(m, want) {
			return r.Fail("harness:oracle-disagreement", "k=%x u=%x ladder=%x edwards=%x", k, u, want, m).Result()
		}
	}
	if bytes.Equal(want, make([]byte, 32)) {
		r.Class("zero-output")
	}

	r.Eval(2)
	s := c07Scalar(k)
	pt := c07MontPoint(u)
	var out curve.MontgomeryPoint
	for i := range out {
		out[i] = 0xa5
	}
	if ret := out.Mul(pt, s); ret != &out || !bytes.Equal(out[:], want) {
		r.Fail("MontgomeryPoint.Mul:wrong-output", "k=%x u=%x got=%x want=%x", k, u, out[:], want)
	}
	if !bytes.Equal(pt[:], u) {
		r.Fail("MontgomeryPoint.Mul:input-modified", "k=%x u=%x", k, u)
	}
	// receiver aliases the point (the way x25519.ScalarMult calls it)
	pt.Mul(pt, s)
	if !bytes.Equal(pt[:], want) {
		r.Fail("MontgomeryPoint.Mul:wrong-output", "aliased; k=%x u=%x got=%x want=%x", k, u, pt[:], want)
	}
	var sb [32]byte
	if err := s.ToBytes(sb[:]); err != nil || !bytes.Equal(sb[:], k) {
		r.Fail("MontgomeryPoint.Mul:scalar-modified", "k=%x now=%x", k, sb[:])
	}
	return r.Result()
}

func TestC07MontMul(t *testing.T) { h.Run(t, c07GenMontMul, c07CheckMontMul) }

// ----------------------------------------------------------------- Equal

type c07MontEqCase struct {
	A, B h.Hex
	Rel  string
}

func c07GenMontEq(t *rapid.T) c07MontEqCase {
	a, _ := h.C07U(t, "a")
	rel := rapid.SampledFrom([]string{"same", "bit255", "reduced", "alias", "plus1", "neg", "bitflip", "bitflip", "independent", "independent"}).Draw(t, "rel")
	b := append([]byte(nil), a...)
	raw := append([]byte(nil), a...)
	raw[31] &= 0x7f
	v := ref.FromLE(raw)
	switch rel {
	case "bit255":
		b[31] ^= 0x80
	case "reduced":
		b = ref.FEncode(v)
	case "alias": // v mod p + p when that still fits in 255 bits
		w := new(big.Int).Add(ref.FMod(v), ref.P)
		if w.BitLen() <= 255 {
			b = ref.ToLE(w, 32)
		} else {
			b = ref.FEncode(v)
		}
		if rapid.Bool().Draw(t, "hi") {
			b[31] |= 0x80
		}
	case "plus1":
		b = ref.FEncode(new(big.Int).Add(v, big.NewInt(1)))
	case "neg":
		b = ref.FEncode(new(big.Int).Neg(v))
	case "bitflip":
		i := rapid.IntRange(0, 254).Draw(t, "bit")
		b[i/8] ^= 1 << uint(i%8)
	case "independent":
		b, _ = h.C07U(t, "b")
	}
	return c07MontEqCase{A: a, B: b, Rel: rel}
}

func c07CheckMontEq(c c07MontEqCase) h.Result {
	r := h.NewR().Class("rel:" + c.Rel)
	if len(c.A) != 32 || len(c.B) != 32 {
		return r.Fail("harness:bad-case", "").Result()
	}
	want := ref.FDecode(c.A).Cmp(ref.FDecode(c.B)) == 0
	r.NT(!bytes.Equal(c.A, c.B))
	if want {
		r.Class("equal")
	}
	a, b := c07MontPoint(c.A), c07MontPoint(c.B)
	r.Eval(2)
	if got := a.Equal(b); (got == 1) != want || (got != 0 && got != 1) {
		r.Fail("MontgomeryPoint.Equal:wrong", "a=%x b=%x got=%d want=%v", []byte(c.A), []byte(c.B), got, want)
	}
	if got := b.Equal(a); (got == 1) != want {
		r.Fail("MontgomeryPoint.Equal:not-symmetric", "a=%x b=%x got=%d want=%v", []byte(c.A), []byte(c.B), got, want)
	}
	if !bytes.Equal(a[:], c.A) || !bytes.Equal(b[:], c.B) {
		r.Fail("MontgomeryPoint.Equal:modified-operand", "")
	}
	return r.Result()
}

func TestC07MontEqual(t *testing.T) { h.Run(t, c07GenMontEq, c07CheckMontEq) }

// ------------------------------------ fixed-base path: table + SetEdwards

type c07FixedCase struct {
	K    h.Hex // < 2^255, not clamped
	KCls string
}

func c07GenFixed(t *rapid.T) c07FixedCase {
	switch rapid.IntRange(0, 4).Draw(t, "kk") {
	case 0:
		m := rapid.IntRange(0, 7).Draw(t, "m")
		e := rapid.IntRange(-2, 2).Draw(t, "e")
		v := new(big.Int).Mul(big.NewInt(int64(m)), ref.L)
		v.Add(v, big.NewInt(int64(e)))
		if v.Sign() < 0 {
			v.SetInt64(0)
		}
		return c07FixedCase{K: ref.ToLE(v, 32), KCls: "mL+e"}
	case 1: // clamped
		k := h.UniformBytes(t, 32, "k")
		k[0] &= 248
		k[31] &= 127
		k[31] |= 64
		return c07FixedCase{K: k, KCls: "clamped"}
	}
	k, cls := h.Scalar255(t, "k")
	return c07FixedCase{K: k, KCls: cls}
}

func c07CheckFixed(c c07FixedCase) h.Result {
	r := h.NewR().Class("k:" + c.KCls)
	if len(c.K) != 32 || c.K[31]&0x80 != 0 {
		return r.Fail("harness:bad-case", "").Result()
	}
	k := append([]byte(nil), c.K...)
	ki := ref.FromLE(k)
	isId := ref.SMod(ki).Sign() == 0
	if isId {
		r.Class("identity")
	}
	r.NT(c.KCls != "clamped")
	nine := ref.X25519BasepointU()
	want := ref.X25519Unclamped(k, nine)
	if m := ref.FEncode(ref.MulBase(ki).MontgomeryU()); !bytes.Equal(m, want) {
		return r.Fail("harness:oracle-disagreement", "k=%x ladder=%x edwards=%x", k, want, m).Result()
	}
	if isId != bytes.Equal(want, make([]byte, 32)) {
		return r.Fail("harness:oracle-disagreement", "k=%x: zero output iff k = 0 mod L violated by the reference", k).Result()
	}
	s := c07Scalar(k)
	r.Eval(3)
	// the mechanism of x25519.ScalarBaseMult, on unclamped scalars
	var ed curve.EdwardsPoint
	var viaEd curve.MontgomeryPoint
	viaEd.SetEdwards(ed.MulBasepoint(curve.ED25519_BASEPOINT_TABLE, s))
	if !bytes.Equal(viaEd[:], want) {
		r.Fail("MontgomeryPoint.SetEdwards:fixed-base-mismatch", "k=%x got=%x want=%x", k, viaEd[:], want)
	}
	// ... equals the ladder on the X25519 base point constant and on a copy of it
	var viaLadder curve.MontgomeryPoint
	viaLadder.Mul(curve.X25519_BASEPOINT, s)
	if !bytes.Equal(viaLadder[:], want) {
		r.Fail("MontgomeryPoint.Mul:wrong-output", "k=%x u=9 got=%x want=%x", k, viaLadder[:], want)
	}
	if viaEd.Equal(&viaLadder) != 1 {
		r.Fail("MontgomeryPoint.Equal:wrong", "a=%x b=%x", viaEd[:], viaLadder[:])
	}
	if !bytes.Equal(curve.X25519_BASEPOINT[:], nine) {
		r.Fail("curve.X25519_BASEPOINT:modified", "now %x", curve.X25519_BASEPOINT[:])
	}
	return r.Result()
}

func TestC07FixedBase(t *testing.T) { h.Run(t, c07GenFixed, c07CheckFixed) }

// ------------------------------------- SetEdwards on arbitrary points

type c07SetEdCase struct {
	P, Aux h.PointSpec
	Via    int // 0: decoded (Z = 1); 1: (P + Aux) - Aux; 2: (P - Aux) + Aux, then doubled-and-halved by adding the identity
}

func c07GenSetEd(t *rapid.T) c07SetEdCase {
	return c07SetEdCase{P: h.GenPointSpec(t, "p", rapid.Bool().Draw(t, "cheap")), Aux: h.GenPointSpec(t, "aux", true),
		Via: rapid.IntRange(0, 2).Draw(t, "via")}
}

func c07Decode(enc []byte) *curve.EdwardsPoint {
	var cp curve.CompressedEdwardsY
	if _, err := cp.SetBytes(enc); err != nil {
		panic(err)
	}
	p, err := curve.NewEdwardsPoint().SetCompressedY(&cp)
	if err != nil {
		panic("c07: canonical encoding rejected: " + err.Error())
	}
	return p
}

func c07CheckSetEd(c c07SetEdCase) h.Result {
	r := h.NewR().Class("p:"+c.P.Cls, []string{"via:decoded", "via:add-sub", "via:sub-add"}[c.Via%3])
	r.NT(c.P.J%8 != 0 || c.Via%3 != 0 || c.P.IsIdentity())
	rp := c.P.Ref()
	p := c07Decode(rp.Encode())
	switch c.Via % 3 {
	case 1:
		q := c07Decode(c.Aux.Enc())
		p.Add(p, q)
		p.Sub(p, q)
	case 2:
		q := c07Decode(c.Aux.Enc())
		p.Sub(p, q)
		p.Add(p, q)
		p.Add(p, curve.NewEdwardsPoint())
	}
	want := ref.FEncode(rp.MontgomeryU())
	r.Eval(1)
	var m curve.MontgomeryPoint
	for i := range m {
		m[i] = 0xa5
	}
	if ret := m.SetEdwards(p); ret != &m || !bytes.Equal(m[:], want) {
		r.Fail("MontgomeryPoint.SetEdwards:wrong", "P=[%s]B+T%d via=%d got=%x want=%x", c.P.A, c.P.J%8, c.Via, m[:], want)
	}
	return r.Result()
}

func TestC07SetEdwards(t *testing.T) { h.Run(t, c07GenSetEd, c07CheckSetEd) }
