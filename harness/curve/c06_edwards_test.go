//go:build verif

package curve

import (
	"math/big"
	"testing"

	"github.com/oasisprotocol/curve25519-voi/curve/scalar"
	"pgregory.net/rapid"
	h "verifh"
	ref "verifref"
)

// c06GenTriple appends (a, A, b, C) for the triple-scalar-multiplication
// family; half of the time C = [a]A + [b]B (computed by the reference from
// the construction of A), the shape signature verification uses.
func c06GenTriple(t *rapid.T, c *h.DiffCase) {
	c06GenSc(t, c, "a")
	ps := h.GenPointSpec(t, "A", rapid.Bool().Draw(t, "cheapA"))
	c.PutB(h.DiffEnc(ps))
	c.PutN(rapid.IntRange(0, 3).Draw(t, "A_rerep"))
	c06GenSc(t, c, "b")
	if rapid.Bool().Draw(t, "consistent") {
		a, b := ref.FromLE(c.B[0]), ref.FromLE(c.B[2])
		x := new(big.Int).Mul(a, ref.FromLE(ps.A))
		x.Add(x, b)
		j := new(big.Int).Mul(a, big.NewInt(int64(ps.J)))
		cs := h.PointSpec{A: h.Hex(ref.SEncode(x)), J: int(j.Mod(j, big.NewInt(8)).Int64())}
		c.PutB(h.DiffEnc(cs))
		c.PutN(rapid.IntRange(0, 3).Draw(t, "C_rerep"))
	} else {
		h.DiffValidPoint(t, c, "C", true)
	}
}

func c06EdwardsOps() []h.DiffOp {
	return []h.DiffOp{
		{Name: "decode", Weight: 5,
			Covers: []string{"NewCompressedEdwardsY", "NewCompressedEdwardsYFromBytes", "CompressedEdwardsY.SetBytes", "CompressedEdwardsY.UnmarshalBinary",
				"CompressedEdwardsY.MarshalBinary", "CompressedEdwardsY.IsCanonicalVartime", "CompressedEdwardsY.Equal", "CompressedEdwardsY.Identity",
				"CompressedEdwardsY.SetEdwardsPoint", "EdwardsPoint.SetCompressedY", "EdwardsPoint.UnmarshalBinary", "EdwardsPoint.MarshalBinary",
				"EdwardsPoint.IsSmallOrder", "EdwardsPoint.IsTorsionFree", "EdwardsPoint.IsIdentity", "NewEdwardsPoint"},
			Gen: func(t *rapid.T, c *h.DiffCase) {
				if rapid.IntRange(0, 7).Draw(t, "hostile") == 0 {
					h.DiffSized(t, c, 32, "in")
				} else {
					b, _ := h.GenPointBytes(t, "in")
					c.PutB(b)
				}
			},
			Exec: func(a *h.DiffArgs, o *h.DiffOut) {
				in := a.B()
				cy, err := NewCompressedEdwardsYFromBytes(in)
				o.Err("new", err)
				if cy != nil {
					o.Bytes("new", cy[:])
				}
				cy2 := NewCompressedEdwardsY()
				o.Bytes("new.identity", cy2[:])
				ret, err := cy2.SetBytes(in)
				o.Err("setbytes", err)
				o.Bool("setbytes.ret", ret != nil)
				o.Bytes("setbytes", cy2[:])
				var cy3 CompressedEdwardsY
				o.Err("c.unmarshal", cy3.UnmarshalBinary(in))
				o.Bytes("c.unmarshal", cy3[:])
				mb, err := cy3.MarshalBinary()
				o.Err("c.marshal", err)
				o.Bytes("c.marshal", mb)
				o.Bool("c.canonical", cy2.IsCanonicalVartime())
				o.Int("c.equal", int64(cy2.Equal(&cy3)))
				o.Int("c.equal.b", int64(cy2.Equal(ED25519_BASEPOINT_COMPRESSED)))
				p := NewEdwardsPoint()
				rp, err := p.SetCompressedY(cy2)
				o.Err("setcompressedy", err)
				o.Bool("setcompressedy.ret", rp != nil)
				c06PtOut(o, "setcompressedy", p)
				var q EdwardsPoint
				q.Set(ED25519_BASEPOINT_POINT)
				o.Err("p.unmarshal", q.UnmarshalBinary(in))
				c06PtOut(o, "p.unmarshal", &q)
				o.Bool("smallorder", q.IsSmallOrder())
				o.Bool("torsionfree", q.IsTorsionFree())
				o.Bool("identity", q.IsIdentity())
				var cy4 CompressedEdwardsY
				o.Bytes("recompress", cy4.SetEdwardsPoint(&q)[:])
				o.Bytes("c.identity", cy4.Identity()[:])
				// decoded coordinates take part in arithmetic (x is not visible in the encoding alone)
				c06PtOut(o, "plusB", NewEdwardsPoint().Add(&q, ED25519_BASEPOINT_POINT))
			}},
		{Name: "addsub", Weight: 6,
			Covers: []string{"EdwardsPoint.Add", "EdwardsPoint.Sub", "EdwardsPoint.Neg", "EdwardsPoint.Equal", "EdwardsPoint.Sum", "EdwardsPoint.Set",
				"EdwardsPoint.ConditionalSelect", "EdwardsPoint.MulByCofactor", "EdwardsPoint.Identity", "EdwardsPoint.IsIdentity", "EdwardsPoint.IsSmallOrder"},
			Gen: func(t *rapid.T, c *h.DiffCase) {
				h.DiffPoint(t, c, "P")
				if rapid.IntRange(0, 5).Draw(t, "same") == 0 {
					c.PutB(c.B[0])
					c.PutN(rapid.IntRange(0, 3).Draw(t, "Q_rerep"))
				} else {
					h.DiffPoint(t, c, "Q")
				}
				c.PutN(rapid.IntRange(0, 1).Draw(t, "choice"))
			},
			Exec: func(a *h.DiffArgs, o *h.DiffOut) {
				p, q, ch := c06Pt(a, o), c06Pt(a, o), a.N()&1
				c06PtOut(o, "add", NewEdwardsPoint().Add(p, q))
				c06PtOut(o, "sub", NewEdwardsPoint().Sub(p, q))
				c06PtOut(o, "neg", NewEdwardsPoint().Neg(p))
				o.Int("equal", int64(p.Equal(q)))
				o.Int("equal.self", int64(p.Equal(NewEdwardsPoint().Set(p))))
				c06PtOut(o, "sum", NewEdwardsPoint().Sum([]*EdwardsPoint{p, q, p}))
				c06PtOut(o, "sum.empty", NewEdwardsPoint().Set(p).Sum(nil))
				var s EdwardsPoint
				s.ConditionalSelect(p, q, ch)
				c06PtOut(o, "select", &s)
				c06PtOut(o, "cofactor", NewEdwardsPoint().MulByCofactor(p))
				r := NewEdwardsPoint().Set(p)
				c06PtOut(o, "double.alias", r.Add(r, r))
				c06PtOut(o, "sub.alias", r.Sub(q, r))
				c06PtOut(o, "identity", r.Identity())
				d := NewEdwardsPoint().Sub(p, q)
				o.Bool("diff.identity", d.IsIdentity())
				o.Bool("diff.smallorder", d.IsSmallOrder())
			}},
		{Name: "mul", Weight: 8,
			Covers: []string{"EdwardsPoint.Mul", "EdwardsPoint.IsTorsionFree"},
			Gen: func(t *rapid.T, c *h.DiffCase) {
				h.DiffPoint(t, c, "P")
				c06GenSc(t, c, "s")
			},
			Exec: func(a *h.DiffArgs, o *h.DiffOut) {
				p, s := c06Pt(a, o), c06Sc(a)
				c06PtOut(o, "mul", NewEdwardsPoint().Mul(p, s))
				r := NewEdwardsPoint().Set(p)
				c06PtOut(o, "mul.alias", r.Mul(r, s))
				o.Bool("torsionfree", p.IsTorsionFree())
			}},
		{Name: "mulbasepoint", Weight: 8,
			Covers: []string{"EdwardsPoint.MulBasepoint", "ED25519_BASEPOINT_TABLE", "EdwardsBasepointTable.Basepoint"},
			Gen:    func(t *rapid.T, c *h.DiffCase) { c06GenSc(t, c, "s") },
			Exec: func(a *h.DiffArgs, o *h.DiffOut) {
				s := c06Sc(a)
				c06PtOut(o, "mulbase", NewEdwardsPoint().MulBasepoint(ED25519_BASEPOINT_TABLE, s))
				c06PtOut(o, "basepoint", ED25519_BASEPOINT_TABLE.Basepoint())
			}},
		{Name: "table", Weight: 3,
			Covers: []string{"NewEdwardsBasepointTable", "EdwardsBasepointTable.Basepoint", "EdwardsPoint.MulBasepoint"},
			Gen: func(t *rapid.T, c *h.DiffCase) {
				h.DiffPoint(t, c, "P")
				c06GenSc(t, c, "s")
			},
			Exec: func(a *h.DiffArgs, o *h.DiffOut) {
				p, s := c06Pt(a, o), c06Sc(a)
				tbl := NewEdwardsBasepointTable(p)
				c06PtOut(o, "basepoint", tbl.Basepoint())
				c06PtOut(o, "mul", NewEdwardsPoint().MulBasepoint(tbl, s))
				c06PtOut(o, "mul.one", NewEdwardsPoint().MulBasepoint(tbl, scalar.One()))
			}},
		{Name: "doublescalarmul", Weight: 6,
			Covers: []string{"EdwardsPoint.DoubleScalarMulBasepointVartime", "EdwardsPoint.ExpandedDoubleScalarMulBasepointVartime", "NewExpandedEdwardsPoint"},
			Gen: func(t *rapid.T, c *h.DiffCase) {
				c06GenSc(t, c, "a")
				h.DiffPoint(t, c, "A")
				c06GenSc(t, c, "b")
			},
			Exec: func(a *h.DiffArgs, o *h.DiffOut) {
				sa, A, sb := c06Sc(a), c06Pt(a, o), c06Sc(a)
				c06PtOut(o, "double", NewEdwardsPoint().DoubleScalarMulBasepointVartime(sa, A, sb))
				c06PtOut(o, "expanded", NewEdwardsPoint().ExpandedDoubleScalarMulBasepointVartime(sa, NewExpandedEdwardsPoint(A), sb))
			}},
		{Name: "triplescalarmul", Weight: 6,
			Covers: []string{"EdwardsPoint.TripleScalarMulBasepointVartime", "EdwardsPoint.ExpandedTripleScalarMulBasepointVartime", "NewExpandedEdwardsPoint"},
			Gen:    c06GenTriple,
			Exec: func(a *h.DiffArgs, o *h.DiffOut) {
				sa, A, sb, C := c06Sc(a), c06Pt(a, o), c06Sc(a), c06Pt(a, o)
				r := NewEdwardsPoint().TripleScalarMulBasepointVartime(sa, A, sb, C)
				c06PtOut(o, "triple", r)
				o.Bool("triple.identity", r.IsIdentity())
				o.Bool("triple.smallorder", r.IsSmallOrder())
				r = NewEdwardsPoint().ExpandedTripleScalarMulBasepointVartime(sa, NewExpandedEdwardsPoint(A), sb, C)
				c06PtOut(o, "expanded", r)
			}},
		{Name: "expanded", Weight: 2,
			Covers: []string{"NewExpandedEdwardsPoint", "ExpandedEdwardsPoint.SetEdwardsPoint", "ExpandedEdwardsPoint.Point", "EdwardsPoint.SetExpanded"},
			Gen: func(t *rapid.T, c *h.DiffCase) {
				h.DiffPoint(t, c, "P")
				h.DiffPoint(t, c, "Q")
				c06GenSc(t, c, "s")
			},
			Exec: func(a *h.DiffArgs, o *h.DiffOut) {
				p, q, s := c06Pt(a, o), c06Pt(a, o), c06Sc(a)
				ep := NewExpandedEdwardsPoint(p)
				c06PtOut(o, "point", ep.Point())
				c06PtOut(o, "setexpanded", NewEdwardsPoint().SetExpanded(ep))
				snap := *ep           // by-value snapshot taken before the reuse
				ep.SetEdwardsPoint(q) // reuse
				c06PtOut(o, "point2", ep.Point())
				c06PtOut(o, "mul2", NewEdwardsPoint().ExpandedDoubleScalarMulBasepointVartime(s, ep, scalar.New()))
				c06PtOut(o, "snap.point", snap.Point())
				c06PtOut(o, "snap.mul", NewEdwardsPoint().ExpandedDoubleScalarMulBasepointVartime(s, &snap, scalar.New()))
			}},
		{Name: "montgomery", Weight: 4,
			Covers: []string{"MontgomeryPoint.SetEdwards", "EdwardsPoint.SetMontgomery", "MontgomeryPoint.Equal", "NewMontgomeryPoint"},
			Gen: func(t *rapid.T, c *h.DiffCase) {
				h.DiffPoint(t, c, "P")
				b, _ := h.Bytes256(t, "u")
				c.PutB(b)
				c.PutN(rapid.SampledFrom([]int{0, 1, 0, 1, 2, 3, 255}).Draw(t, "sign"))
			},
			Exec: func(a *h.DiffArgs, o *h.DiffOut) {
				p := c06Pt(a, o)
				ub, sign := a.B(), uint8(a.N())
				mp := NewMontgomeryPoint()
				o.Bytes("new", mp[:])
				mp.SetEdwards(p)
				o.Bytes("setedwards", mp[:])
				back, err := NewEdwardsPoint().SetMontgomery(mp, sign)
				o.Err("back", err)
				c06PtOut(o, "back", back)
				var u MontgomeryPoint
				if _, err := u.SetBytes(ub); err != nil {
					o.Err("u", err)
					return
				}
				r, err := NewEdwardsPoint().SetMontgomery(&u, sign)
				o.Err("setmontgomery", err)
				c06PtOut(o, "setmontgomery", r)
				o.Int("equal", int64(u.Equal(mp)))
				// the same u with bit 255 flipped / plus p is "equal"
				u2 := u
				u2[31] ^= 0x80
				o.Int("equal.bit255", int64(u.Equal(&u2)))
			}},
		{Name: "montgomery.mul", Weight: 6,
			Covers: []string{"MontgomeryPoint.Mul", "MontgomeryPoint.SetBytes", "X25519_BASEPOINT", "MontgomeryPoint.Equal"},
			Gen: func(t *rapid.T, c *h.DiffCase) {
				switch rapid.IntRange(0, 5).Draw(t, "uk") {
				case 0:
					h.DiffSized(t, c, 32, "u")
				case 1: // u of a curve point
					x := ref.FromLE(h.DiffEnc(h.GenPointSpec(t, "P", true))) // y with sign bit: any 32 bytes do, both curve and twist matter
					c.PutB(ref.ToLE(x, 32))
				default:
					b, _ := h.Bytes256(t, "u")
					c.PutB(b)
				}
				c06GenSc(t, c, "s")
			},
			Exec: func(a *h.DiffArgs, o *h.DiffOut) {
				var u MontgomeryPoint
				ret, err := u.SetBytes(a.B())
				o.Err("setbytes", err)
				o.Bool("setbytes.ret", ret != nil)
				s := c06Sc(a)
				var r MontgomeryPoint
				r.Mul(&u, s)
				o.Bytes("mul", r[:])
				r.Mul(X25519_BASEPOINT, s)
				o.Bytes("mulbase", r[:])
				o.Int("equal", int64(r.Equal(&u)))
				u2 := u
				o.Bytes("mul.alias", u2.Mul(&u2, s)[:])
			}},
		{Name: "constants", Weight: 2,
			Covers: []string{"EIGHT_TORSION", "ED25519_BASEPOINT_POINT", "ED25519_BASEPOINT_COMPRESSED", "ED25519_BASEPOINT_TABLE", "X25519_BASEPOINT"},
			Gen: func(t *rapid.T, c *h.DiffCase) {
				c.PutN(rapid.IntRange(0, 9).Draw(t, "idx"))
				h.DiffValidPoint(t, c, "Q", true)
				c06GenSc(t, c, "s")
			},
			Exec: func(a *h.DiffArgs, o *h.DiffOut) {
				idx := a.N()
				var k *EdwardsPoint
				switch {
				case idx >= 0 && idx < 8:
					k = EIGHT_TORSION[idx]
				case idx == 8:
					k = ED25519_BASEPOINT_POINT
				default:
					k = ED25519_BASEPOINT_TABLE.Basepoint()
				}
				q, s := c06Pt(a, o), c06Sc(a)
				// all four coordinates of the constant take part: encoding, addition (X, Y, Z, T), multiplication
				c06PtOut(o, "const", k)
				c06PtOut(o, "const+Q", NewEdwardsPoint().Add(k, q))
				c06PtOut(o, "Q-const", NewEdwardsPoint().Sub(q, k))
				c06PtOut(o, "[s]const", NewEdwardsPoint().Mul(k, s))
				c06PtOut(o, "dsm", NewEdwardsPoint().DoubleScalarMulBasepointVartime(s, k, s))
				o.Int("equal", int64(k.Equal(q)))
				o.Bool("smallorder", k.IsSmallOrder())
				o.Bool("torsionfree", k.IsTorsionFree())
				o.Bytes("compressed.B", ED25519_BASEPOINT_COMPRESSED[:])
				o.Bytes("x25519.B", X25519_BASEPOINT[:])
				var mp MontgomeryPoint
				o.Bytes("const.u", mp.SetEdwards(k)[:])
			}},
	}
}

func TestC06Edwards(t *testing.T) { h.RunDiffOps(t, "curve", c06Backend(), c06EdwardsOps()) }
