//go:build verif && (!amd64 || purego || force32bit)

package curve

// C20, builds without the vector backend (same constraint as
// edwards_vector_generic.go): the vector tables do not exist.

import (
	h "verifh"
	ref "verifref"
)

func c20LookupTables() []string { return c20GenericLookupTables }

func c20CheckVectorConsts(r *h.R) {
	r.Eval(1)
	// stubs: "not actually used ... but need to be defined"; the only value
	// with content is the feature flag, which must be off in these builds.
	if supportsVectorizedEdwards {
		r.Fail("curve.supportsVectorizedEdwards:true-in-a-build-without-vector-code", "")
	}
}

// Only reachable when a replay file recorded on a vector build is replayed here.
func c20CheckVectorLookup(r *h.R, c c20LookupCase, want ref.Point) {
	r.Class("vector-unavailable-in-this-build")
}
