//go:build verif

package curve

// C10 — encoding, equality, identity / small-order / torsion-free predicates
// and the Edwards->Montgomery map answer the mathematical question for every
// point in every projective representation.
//
// In-package so that a point (x, y) computed by the reference can be loaded
// as (λx : λy : λ : λxy) for an arbitrary non-zero λ without going through
// the decoder under test.

import (
	"bytes"
	"math/big"
	"reflect"
	"testing"

	"github.com/oasisprotocol/curve25519-voi/internal/field"
	"pgregory.net/rapid"
	h "verifh"
	ref "verifref"
)

// Representations of one mathematical point.
const (
	c10ReprAffine    = iota // (x : y : 1 : xy), coordinates from the reference
	c10ReprRefScaled        // (λx : λy : λ : λxy), products computed by the reference
	c10ReprLibScaled        // affine, then each coordinate multiplied by λ with field.Mul
	c10ReprAddSub           // (P + Q) - Q with the library's Add/Sub, Q = aux point
	c10ReprDecoded          // SetCompressedY(canonical encoding)
	c10ReprSubAdd           // (P - Q) + Q, result then λ-scaled with field.Mul
	c10ReprCount
)

var c10ReprNames = []string{"affine", "ref-scaled", "lib-scaled", "add-sub", "decoded", "sub-add-scaled"}

func c10FE(v *big.Int) field.Element {
	var e field.Element
	if _, err := e.SetBytes(ref.FEncode(v)); err != nil {
		panic(err)
	}
	return e
}

func c10FromRef(p ref.Point, lambda *big.Int) *EdwardsPoint {
	var q EdwardsPoint
	q.inner.X = c10FE(ref.FMul(p.X, lambda))
	q.inner.Y = c10FE(ref.FMul(p.Y, lambda))
	q.inner.Z = c10FE(lambda)
	q.inner.T = c10FE(ref.FMul(ref.FMul(p.X, p.Y), lambda))
	return &q
}

func c10LibScale(p *EdwardsPoint, lambda *big.Int) *EdwardsPoint {
	l := c10FE(lambda)
	var q EdwardsPoint
	q.inner.X.Mul(&p.inner.X, &l)
	q.inner.Y.Mul(&p.inner.Y, &l)
	q.inner.Z.Mul(&p.inner.Z, &l)
	q.inner.T.Mul(&p.inner.T, &l)
	return &q
}

// c10Build constructs the library value for the reference point p in the
// requested representation.  lambda is non-zero mod p.
func c10Build(p ref.Point, repr int, lambda *big.Int, aux ref.Point) *EdwardsPoint {
	one := big.NewInt(1)
	switch repr {
	case c10ReprAffine:
		return c10FromRef(p, one)
	case c10ReprRefScaled:
		return c10FromRef(p, lambda)
	case c10ReprLibScaled:
		return c10LibScale(c10FromRef(p, one), lambda)
	case c10ReprAddSub:
		q := c10FromRef(aux, one)
		var s EdwardsPoint
		s.Add(c10FromRef(p, one), q)
		s.Sub(&s, q)
		return &s
	case c10ReprDecoded:
		var cp CompressedEdwardsY
		if _, err := cp.SetBytes(p.Encode()); err != nil {
			panic(err)
		}
		var s EdwardsPoint
		if _, err := s.SetCompressedY(&cp); err != nil {
			panic("c10: canonical encoding rejected: " + err.Error())
		}
		return &s
	case c10ReprSubAdd:
		q := c10FromRef(aux, lambda)
		var s EdwardsPoint
		s.Sub(c10FromRef(p, one), q)
		s.Add(&s, q)
		return c10LibScale(&s, lambda)
	}
	panic("c10: bad repr")
}

func c10Enc(p *EdwardsPoint) []byte {
	b, err := p.MarshalBinary()
	if err != nil {
		panic(err)
	}
	return b
}

type c10PtCase struct {
	P, Q, Aux    h.PointSpec
	Rel          string
	LamP, LamQ   h.Hex // 32-byte little-endian, non-zero mod p
	ReprP, ReprQ int
}

func c10GenLambda(t *rapid.T, label string) []byte {
	var v *big.Int
	switch rapid.IntRange(0, 5).Draw(t, label+"_lk") {
	case 0:
		v = big.NewInt(int64(rapid.SampledFrom([]int{1, 2, 3, 4, 8, 19, 38, 121666}).Draw(t, label+"_small")))
	case 1:
		v = new(big.Int).Sub(ref.P, big.NewInt(int64(rapid.IntRange(1, 20).Draw(t, label+"_neg"))))
	case 2:
		v = new(big.Int).Lsh(big.NewInt(1), uint(rapid.IntRange(1, 254).Draw(t, label+"_sh")))
	default:
		v = ref.FMod(ref.FromLE(h.UniformBytes(t, 32, label)))
	}
	v = ref.FMod(v)
	if v.Sign() == 0 {
		v.SetInt64(1)
	}
	return ref.ToLE(v, 32)
}

func c10NegSpec(ps h.PointSpec) h.PointSpec {
	a := ref.SNeg(ref.FromLE(ps.A))
	return h.PointSpec{A: h.Hex(ref.ToLE(a, 32)), J: (8 - ps.J%8) % 8, Cls: ps.Cls}
}

func c10GenPt(t *rapid.T) c10PtCase {
	var c c10PtCase
	c.P = h.GenPointSpec(t, "p", rapid.IntRange(0, 2).Draw(t, "pcheap") != 0)
	c.Aux = h.GenPointSpec(t, "aux", true)
	c.Rel = rapid.SampledFrom([]string{"same", "same", "same", "neg", "plus-torsion", "same-x", "plus-L", "independent", "independent"}).Draw(t, "rel")
	switch c.Rel {
	case "same":
		c.Q = c.P
	case "neg":
		c.Q = c10NegSpec(c.P)
	case "plus-torsion":
		c.Q = c.P
		c.Q.J = (c.P.J + rapid.IntRange(1, 7).Draw(t, "dj")) % 8
	case "same-x": // (x, -y) = -P + T4
		c.Q = c10NegSpec(c.P)
		c.Q.J = (c.Q.J + 4) % 8
	case "plus-L": // same point, index shifted by the group order
		c.Q = c.P
		a := new(big.Int).Add(ref.SMod(ref.FromLE(c.P.A)), ref.L)
		c.Q.A = h.Hex(ref.ToLE(a, 32))
	default:
		c.Q = h.GenPointSpec(t, "q", true)
	}
	c.LamP = c10GenLambda(t, "lp")
	c.LamQ = c10GenLambda(t, "lq")
	c.ReprP = rapid.IntRange(0, c10ReprCount-1).Draw(t, "rp")
	c.ReprQ = rapid.IntRange(0, c10ReprCount-1).Draw(t, "rq")
	return c
}

func c10CheckPt(c c10PtCase) h.Result {
	r := h.NewR()
	if c.ReprP < 0 || c.ReprP >= c10ReprCount || c.ReprQ < 0 || c.ReprQ >= c10ReprCount || len(c.LamP) != 32 || len(c.LamQ) != 32 {
		return r.Fail("harness:bad-case", "").Result()
	}
	lp, lq := ref.FMod(ref.FromLE(c.LamP)), ref.FMod(ref.FromLE(c.LamQ))
	if lp.Sign() == 0 || lq.Sign() == 0 {
		return r.Fail("harness:bad-case", "lambda = 0").Result()
	}
	r.Class("p:"+c.P.Cls, "rel:"+c.Rel, "repr:"+c10ReprNames[c.ReprP])
	rp, rq, raux := c.P.Ref(), c.Q.Ref(), c.Aux.Ref()
	if !rp.OnCurve() || !rq.OnCurve() {
		return r.Fail("harness:oracle-disagreement", "reference point not on curve").Result()
	}
	p := c10Build(rp, c.ReprP, lp, raux)
	q := c10Build(rq, c.ReprQ, lq, raux)
	p0, q0 := *p, *q
	var zOne field.Element
	zOne.One()
	zNotOne := p.inner.Z.Equal(&zOne) != 1
	r.NT(c.P.J%8 != 0 || zNotOne)
	if zNotOne {
		r.Class("Z!=1")
	}
	desc := func() string {
		return "P=[" + c.P.A.String() + "]B+T" + string(rune('0'+c.P.J%8)) + " repr=" + c10ReprNames[c.ReprP] + " lambda=" + c.LamP.String()
	}

	// --- encoding is the unique canonical form
	r.Eval(2)
	want := rp.Encode()
	mb, err := p.MarshalBinary()
	if err != nil || !bytes.Equal(mb, want) {
		r.Fail("EdwardsPoint.MarshalBinary:wrong-encoding", "%s got=%x want=%x err=%v", desc(), mb, want, err)
	}
	var cp CompressedEdwardsY
	if ret := cp.SetEdwardsPoint(p); ret != &cp || !bytes.Equal(cp[:], want) {
		r.Fail("CompressedEdwardsY.SetEdwardsPoint:wrong-encoding", "%s got=%x want=%x", desc(), cp[:], want)
	}
	if !cp.IsCanonicalVartime() {
		r.Fail("CompressedEdwardsY.IsCanonicalVartime:rejects-encoder-output", "enc=%x", cp[:])
	}

	// --- equality: mathematical, independent of representation
	r.Eval(3)
	wantEq := rp.Equal(rq)
	// index arithmetic must agree with the affine comparison (oracle self-check)
	idxEq := c.P.AModL().Cmp(c.Q.AModL()) == 0 && c.P.J%8 == c.Q.J%8
	if idxEq != wantEq {
		return r.Fail("harness:oracle-disagreement", "index equality %v vs affine %v", idxEq, wantEq).Result()
	}
	if wantEq {
		r.Class("equal-pair")
	}
	if got := p.Equal(q); (got == 1) != wantEq || (got != 0 && got != 1) {
		r.Fail("EdwardsPoint.Equal:wrong", "%s Q=[%s]B+T%d repr=%s lambda=%s got=%d want=%v", desc(), c.Q.A, c.Q.J%8, c10ReprNames[c.ReprQ], c.LamQ, got, wantEq)
	}
	if got := q.Equal(p); (got == 1) != wantEq {
		r.Fail("EdwardsPoint.Equal:not-symmetric", "%s Q=[%s]B+T%d got=%d want=%v", desc(), c.Q.A, c.Q.J%8, got, wantEq)
	}
	if p.Equal(p) != 1 {
		r.Fail("EdwardsPoint.Equal:not-reflexive", "%s", desc())
	}

	// --- predicates
	r.Eval(3)
	if got := p.IsIdentity(); got != c.P.IsIdentity() || got != rp.IsIdentity() {
		r.Fail("EdwardsPoint.IsIdentity:wrong", "%s got=%v want=%v", desc(), got, c.P.IsIdentity())
	}
	if got := p.IsSmallOrder(); got != c.P.IsSmallOrder() || got != ref.IsSmallOrder(rp) {
		r.Fail("EdwardsPoint.IsSmallOrder:wrong", "%s got=%v want=%v", desc(), got, c.P.IsSmallOrder())
	}
	if got := p.IsTorsionFree(); got != c.P.IsTorsionFree() {
		r.Fail("EdwardsPoint.IsTorsionFree:wrong", "%s got=%v want=%v", desc(), got, c.P.IsTorsionFree())
	}

	// the cofactor multiplication the small-order test is defined through
	r.Eval(1)
	var c8 EdwardsPoint
	c8.MulByCofactor(p)
	if got, w8 := c10Enc(&c8), ref.MulByCofactor(rp).Encode(); !bytes.Equal(got, w8) {
		r.Fail("EdwardsPoint.MulByCofactor:wrong", "%s got=%x want=%x", desc(), got, w8)
	}

	// --- Edwards -> Montgomery: u = (1+y)/(1-y), identity -> 0
	r.Eval(1)
	var mp MontgomeryPoint
	wantU := ref.FEncode(rp.MontgomeryU())
	if ret := mp.SetEdwards(p); ret != &mp || !bytes.Equal(mp[:], wantU) {
		r.Fail("MontgomeryPoint.SetEdwards:wrong", "%s got=%x want=%x", desc(), mp[:], wantU)
	}
	// ... and back (x sign chosen to match)
	if !rp.IsIdentity() {
		r.Eval(1)
		sign := uint8(rp.X.Bit(0))
		var back EdwardsPoint
		if _, err := back.SetMontgomery(&mp, sign); err != nil {
			r.Fail("EdwardsPoint.SetMontgomery:rejected-curve-point", "%s u=%x err=%v", desc(), mp[:], err)
		} else if back.Equal(p) != 1 {
			bb, _ := back.MarshalBinary()
			r.Fail("EdwardsPoint.SetMontgomery:roundtrip", "%s u=%x got=%x want=%x", desc(), mp[:], bb, want)
		}
	}

	// --- observers must not modify their operands
	if !reflect.DeepEqual(*p, p0) || !reflect.DeepEqual(*q, q0) {
		r.Fail("edwards-predicates:modified-operand", "%s", desc())
	}
	return r.Result()
}

func TestC10Points(t *testing.T) { h.Run(t, c10GenPt, c10CheckPt) }

// TestC10TorsionList enumerates every pair of 8-torsion points in two fixed
// non-trivial scalings: equality, identity, small-order and torsion-free on
// all of E[8] (the points where a coordinate is 0).
func TestC10TorsionList(t *testing.T) {
	var cases []c10PtCase
	lam1 := ref.ToLE(big.NewInt(1), 32)
	lam2 := ref.ToLE(new(big.Int).Sub(ref.P, big.NewInt(2)), 32)
	lam3 := ref.ToLE(ref.FMod(ref.FromLE(h.Expand(10, 32))), 32)
	for i := 0; i < 8; i++ {
		for j := 0; j < 8; j++ {
			for _, rp := range []int{c10ReprAffine, c10ReprRefScaled, c10ReprLibScaled, c10ReprAddSub} {
				cases = append(cases, c10PtCase{
					P: h.PointSpec{A: h.Hex{0}, J: i, Cls: "torsion"}, Q: h.PointSpec{A: h.Hex{0}, J: j, Cls: "torsion"},
					Aux: h.PointSpec{A: h.Hex{7}, J: 3, Cls: "mixed-order/small"}, Rel: "list",
					LamP: lam2, LamQ: lam3, ReprP: rp, ReprQ: c10ReprRefScaled,
				})
			}
		}
		// torsion point against the same torsion point shifted by a prime-order point
		cases = append(cases, c10PtCase{
			P: h.PointSpec{A: h.Hex{1}, J: i, Cls: "mixed-order/small"}, Q: h.PointSpec{A: h.Hex{0}, J: i, Cls: "torsion"},
			Aux: h.PointSpec{A: h.Hex{5}, J: 0, Cls: "prime-order/small"}, Rel: "list",
			LamP: lam3, LamQ: lam1, ReprP: c10ReprRefScaled, ReprQ: c10ReprAffine,
		})
	}
	h.RunList(t, cases, c10CheckPt)
}
