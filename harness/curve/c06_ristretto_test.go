//go:build verif

package curve

import (
	"math/big"
	"testing"

	"github.com/oasisprotocol/curve25519-voi/curve/scalar"
	"pgregory.net/rapid"
	h "verifh"
	ref "verifref"
)

func c06RistrettoOps() []h.DiffOp {
	return []h.DiffOp{
		{Name: "decode", Weight: 5,
			Covers: []string{"NewCompressedRistretto", "CompressedRistretto.SetBytes", "CompressedRistretto.UnmarshalBinary", "CompressedRistretto.MarshalBinary",
				"CompressedRistretto.Equal", "CompressedRistretto.Identity", "CompressedRistretto.SetRistrettoPoint", "RistrettoPoint.SetCompressed",
				"RistrettoPoint.UnmarshalBinary", "RistrettoPoint.MarshalBinary", "RistrettoPoint.IsIdentity", "NewRistrettoPoint", "RISTRETTO_BASEPOINT_COMPRESSED"},
			Gen: func(t *rapid.T, c *h.DiffCase) {
				switch rapid.IntRange(0, 9).Draw(t, "k") {
				case 0:
					h.DiffSized(t, c, 32, "in")
				case 1: // Edwards-style strings are mostly invalid ristretto strings
					b, _ := h.GenPointBytes(t, "in")
					c.PutB(b)
				default:
					b, _ := h.C11GenRistString(t, "in")
					c.PutB(b)
				}
			},
			Exec: func(a *h.DiffArgs, o *h.DiffOut) {
				in := a.B()
				cr := NewCompressedRistretto()
				o.Bytes("new", cr[:])
				ret, err := cr.SetBytes(in)
				o.Err("setbytes", err)
				o.Bool("setbytes.ret", ret != nil)
				o.Bytes("setbytes", cr[:])
				var cr2 CompressedRistretto
				o.Err("c.unmarshal", cr2.UnmarshalBinary(in))
				o.Bytes("c.unmarshal", cr2[:])
				mb, err := cr2.MarshalBinary()
				o.Err("c.marshal", err)
				o.Bytes("c.marshal", mb)
				o.Int("c.equal", int64(cr.Equal(&cr2)))
				o.Int("c.equal.b", int64(cr.Equal(RISTRETTO_BASEPOINT_COMPRESSED)))
				p := NewRistrettoPoint()
				rp, err := p.SetCompressed(cr)
				o.Err("setcompressed", err)
				o.Bool("setcompressed.ret", rp != nil)
				c06RPtOut(o, "setcompressed", p)
				var q RistrettoPoint
				q.Set(RISTRETTO_BASEPOINT_POINT)
				o.Err("p.unmarshal", q.UnmarshalBinary(in))
				c06RPtOut(o, "p.unmarshal", &q)
				o.Bool("identity", q.IsIdentity())
				var cr3 CompressedRistretto
				o.Bytes("recompress", cr3.SetRistrettoPoint(&q)[:])
				o.Bytes("c.identity", cr3.Identity()[:])
				c06RPtOut(o, "plusB", NewRistrettoPoint().Add(&q, RISTRETTO_BASEPOINT_POINT))
			}},
		{Name: "addsub", Weight: 6,
			Covers: []string{"RistrettoPoint.Add", "RistrettoPoint.Sub", "RistrettoPoint.Neg", "RistrettoPoint.Equal", "RistrettoPoint.Sum", "RistrettoPoint.Set",
				"RistrettoPoint.ConditionalSelect", "RistrettoPoint.Identity", "RistrettoPoint.IsIdentity"},
			Gen: func(t *rapid.T, c *h.DiffCase) {
				c06GenRist(t, c, "P", false)
				if rapid.IntRange(0, 5).Draw(t, "same") == 0 {
					c.PutB(c.B[0])
					c.PutN(rapid.IntRange(0, 3).Draw(t, "Q_rerep"))
				} else {
					c06GenRist(t, c, "Q", false)
				}
				c.PutN(rapid.IntRange(0, 1).Draw(t, "choice"))
			},
			Exec: func(a *h.DiffArgs, o *h.DiffOut) {
				p, q, ch := c06RPt(a, o), c06RPt(a, o), a.N()&1
				c06RPtOut(o, "add", NewRistrettoPoint().Add(p, q))
				c06RPtOut(o, "sub", NewRistrettoPoint().Sub(p, q))
				c06RPtOut(o, "neg", NewRistrettoPoint().Neg(p))
				o.Int("equal", int64(p.Equal(q)))
				o.Int("equal.self", int64(p.Equal(NewRistrettoPoint().Set(p))))
				c06RPtOut(o, "sum", NewRistrettoPoint().Sum([]*RistrettoPoint{p, q, p}))
				c06RPtOut(o, "sum.empty", NewRistrettoPoint().Set(p).Sum(nil))
				var s RistrettoPoint
				s.ConditionalSelect(p, q, ch)
				c06RPtOut(o, "select", &s)
				r := NewRistrettoPoint().Set(p)
				c06RPtOut(o, "double.alias", r.Add(r, r))
				c06RPtOut(o, "identity", r.Identity())
				o.Bool("diff.identity", NewRistrettoPoint().Sub(p, q).IsIdentity())
			}},
		{Name: "mul", Weight: 6,
			Covers: []string{"RistrettoPoint.Mul"},
			Gen: func(t *rapid.T, c *h.DiffCase) {
				c06GenRist(t, c, "P", false)
				c06GenSc(t, c, "s")
			},
			Exec: func(a *h.DiffArgs, o *h.DiffOut) {
				p, s := c06RPt(a, o), c06Sc(a)
				c06RPtOut(o, "mul", NewRistrettoPoint().Mul(p, s))
				r := NewRistrettoPoint().Set(p)
				c06RPtOut(o, "mul.alias", r.Mul(r, s))
			}},
		{Name: "mulbasepoint", Weight: 5,
			Covers: []string{"RistrettoPoint.MulBasepoint", "RISTRETTO_BASEPOINT_TABLE", "RistrettoBasepointTable.Basepoint", "RISTRETTO_BASEPOINT_POINT"},
			Gen:    func(t *rapid.T, c *h.DiffCase) { c06GenSc(t, c, "s") },
			Exec: func(a *h.DiffArgs, o *h.DiffOut) {
				s := c06Sc(a)
				c06RPtOut(o, "mulbase", NewRistrettoPoint().MulBasepoint(RISTRETTO_BASEPOINT_TABLE, s))
				c06RPtOut(o, "basepoint", RISTRETTO_BASEPOINT_TABLE.Basepoint())
				c06RPtOut(o, "basepoint.point", RISTRETTO_BASEPOINT_POINT)
			}},
		{Name: "table", Weight: 2,
			Covers: []string{"NewRistrettoBasepointTable", "RistrettoBasepointTable.Basepoint", "RistrettoPoint.MulBasepoint"},
			Gen: func(t *rapid.T, c *h.DiffCase) {
				c06GenRist(t, c, "P", false)
				c06GenSc(t, c, "s")
			},
			Exec: func(a *h.DiffArgs, o *h.DiffOut) {
				p, s := c06RPt(a, o), c06Sc(a)
				tbl := NewRistrettoBasepointTable(p)
				c06RPtOut(o, "basepoint", tbl.Basepoint())
				c06RPtOut(o, "mul", NewRistrettoPoint().MulBasepoint(tbl, s))
			}},
		{Name: "doublescalarmul", Weight: 4,
			Covers: []string{"RistrettoPoint.DoubleScalarMulBasepointVartime", "RistrettoPoint.ExpandedDoubleScalarMulBasepointVartime", "NewExpandedRistrettoPoint"},
			Gen: func(t *rapid.T, c *h.DiffCase) {
				c06GenSc(t, c, "a")
				c06GenRist(t, c, "A", false)
				c06GenSc(t, c, "b")
			},
			Exec: func(a *h.DiffArgs, o *h.DiffOut) {
				sa, A, sb := c06Sc(a), c06RPt(a, o), c06Sc(a)
				c06RPtOut(o, "double", NewRistrettoPoint().DoubleScalarMulBasepointVartime(sa, A, sb))
				c06RPtOut(o, "expanded", NewRistrettoPoint().ExpandedDoubleScalarMulBasepointVartime(sa, NewExpandedRistrettoPoint(A), sb))
			}},
		{Name: "triplescalarmul", Weight: 4,
			Covers: []string{"RistrettoPoint.TripleScalarMulBasepointVartime", "RistrettoPoint.ExpandedTripleScalarMulBasepointVartime", "NewExpandedRistrettoPoint"},
			Gen: func(t *rapid.T, c *h.DiffCase) {
				c06GenSc(t, c, "a")
				ps := h.GenPointSpec(t, "A", rapid.Bool().Draw(t, "cheapA"))
				ps.J = 0
				c.PutB(ref.RistEncode(h.DiffRef(ps)))
				c.PutN(rapid.IntRange(0, 3).Draw(t, "A_rerep"))
				c06GenSc(t, c, "b")
				if rapid.Bool().Draw(t, "consistent") { // C = [a]A + [b]B by the reference
					x := new(big.Int).Mul(ref.FromLE(c.B[0]), ref.FromLE(ps.A))
					x.Add(x, ref.FromLE(c.B[2]))
					c.PutB(ref.RistEncode(ref.C03MulBase(ref.SMod(x))))
					c.PutN(rapid.IntRange(0, 3).Draw(t, "C_rerep"))
				} else {
					c06GenRist(t, c, "C", true)
				}
			},
			Exec: func(a *h.DiffArgs, o *h.DiffOut) {
				sa, A, sb, C := c06Sc(a), c06RPt(a, o), c06Sc(a), c06RPt(a, o)
				r := NewRistrettoPoint().TripleScalarMulBasepointVartime(sa, A, sb, C)
				c06RPtOut(o, "triple", r)
				o.Bool("triple.identity", r.IsIdentity())
				c06RPtOut(o, "expanded", NewRistrettoPoint().ExpandedTripleScalarMulBasepointVartime(sa, NewExpandedRistrettoPoint(A), sb, C))
			}},
		{Name: "expanded", Weight: 2,
			Covers: []string{"NewExpandedRistrettoPoint", "ExpandedRistrettoPoint.SetRistrettoPoint", "ExpandedRistrettoPoint.Point", "RistrettoPoint.SetExpanded"},
			Gen: func(t *rapid.T, c *h.DiffCase) {
				c06GenRist(t, c, "P", false)
				c06GenRist(t, c, "Q", false)
				c06GenSc(t, c, "s")
			},
			Exec: func(a *h.DiffArgs, o *h.DiffOut) {
				p, q, s := c06RPt(a, o), c06RPt(a, o), c06Sc(a)
				ep := NewExpandedRistrettoPoint(p)
				c06RPtOut(o, "point", ep.Point())
				c06RPtOut(o, "setexpanded", NewRistrettoPoint().SetExpanded(ep))
				ep.SetRistrettoPoint(q)
				c06RPtOut(o, "point2", ep.Point())
				c06RPtOut(o, "mul2", NewRistrettoPoint().ExpandedDoubleScalarMulBasepointVartime(s, ep, scalar.New()))
			}},
		{Name: "uniform", Weight: 6,
			Covers: []string{"RistrettoPoint.SetUniformBytes", "RistrettoPoint.SetRandom"},
			Gen: func(t *rapid.T, c *h.DiffCase) {
				switch rapid.IntRange(0, 7).Draw(t, "k") {
				case 0:
					h.DiffSized(t, c, 64, "in")
				case 1, 2, 3: // halves from the field-element catalogue (special inputs of the Elligator map)
					lo, _ := h.C11GenFieldString(t, "lo")
					hi, _ := h.C11GenFieldString(t, "hi")
					c.PutB(append(lo, hi...))
				default:
					c.PutB(h.UniformBytes(t, 64, "in"))
				}
			},
			Exec: func(a *h.DiffArgs, o *h.DiffOut) {
				in := a.B()
				p := NewRistrettoPoint()
				ret, err := p.SetUniformBytes(in)
				o.Err("uniform", err)
				o.Bool("uniform.ret", ret != nil)
				c06RPtOut(o, "uniform", p)
				rd := h.NewDiffReader(in)
				q := NewRistrettoPoint()
				_, err = q.SetRandom(rd)
				o.Err("random", err)
				c06RPtOut(o, "random", q)
				_, err = q.SetRandom(rd)
				o.Err("random2", err)
				c06RPtOut(o, "random2", q)
			}},
	}
}

func TestC06Ristretto(t *testing.T) { h.RunDiffOps(t, "curve", c06Backend(), c06RistrettoOps()) }
