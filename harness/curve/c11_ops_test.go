//go:build verif

package curve

// C11 — the ristretto255 group operations agree with the reference computed
// on Edwards representatives (compared through the RFC 9496 encoding), for
// operands in any of their four representatives and any projective scaling.

import (
	"bytes"
	"math/big"
	"reflect"
	"testing"

	"github.com/oasisprotocol/curve25519-voi/curve/scalar"
	"pgregory.net/rapid"
	h "verifh"
	ref "verifref"
)

type c11Term struct {
	P c11Rep
	S h.Hex // 255-bit scalar, possibly unreduced
}

type c11OpsCase struct {
	P, Q, C c11Rep
	S1, S2  h.Hex // 255-bit scalars (possibly >= L) for Mul / MulBasepoint / double-base
	T1, T2  h.Hex // canonical scalars for the triple-base check
	SCls    [2]string
	CRel    string // how C relates to T1*P + T2*B (label; the expectation is recomputed)
	QRel    string
	Terms   []c11Term
	Static  int // the first Static terms are passed as expanded (precomputed) points
	Choice  int
}

func c11GenOps(t *rapid.T) c11OpsCase {
	var c c11OpsCase
	pa, _ := c11GenA(t, "pa")
	c.P = c11GenRep(t, "p", pa)
	c.QRel = rapid.SampledFrom([]string{"independent", "independent", "independent", "same-element", "negation", "identity"}).Draw(t, "qrel")
	var qa []byte
	switch c.QRel {
	case "same-element":
		qa = pa
	case "negation":
		qa = ref.ToLE(ref.SNeg(ref.FromLE(pa)), 32)
	case "identity":
		qa = []byte{0}
	default:
		qa, _ = c11GenA(t, "qa")
	}
	c.Q = c11GenRep(t, "q", qa)
	c.S1, c.SCls[0] = h.Scalar255(t, "s1")
	c.S2, c.SCls[1] = h.Scalar255(t, "s2")
	c.T1, _ = h.ReducedScalar(t, "t1")
	c.T2, _ = h.ReducedScalar(t, "t2")
	// C = T1*P + T2*B written as a multiple of B, or a near miss
	ac := ref.SAdd(ref.SMul(ref.FromLE(c.T1), ref.FromLE(pa)), ref.FromLE(c.T2))
	c.CRel = rapid.SampledFrom([]string{"match", "match", "off-by-one", "negated", "independent"}).Draw(t, "crel")
	switch c.CRel {
	case "off-by-one":
		ac = ref.SAdd(ac, big.NewInt(1))
	case "negated":
		ac = ref.SNeg(ac)
	case "independent":
		b, _ := c11GenA(t, "ca")
		ac = ref.FromLE(b)
	}
	c.C = c11GenRep(t, "c", ref.ToLE(ac, 32))
	n := rapid.SampledFrom([]int{0, 1, 1, 2, 2, 3, 3, 4, 5, 8}).Draw(t, "n")
	for i := 0; i < n; i++ {
		var a []byte
		if rapid.IntRange(0, 5).Draw(t, "tbig") == 0 {
			a, _ = c11GenA(t, "ta")
		} else { // cheap reference
			a = ref.ToLE(big.NewInt(int64(rapid.Uint32Range(0, 1<<16).Draw(t, "tsmall"))), 4)
		}
		s, _ := h.Scalar255(t, "ts")
		c.Terms = append(c.Terms, c11Term{P: c11GenRep(t, "tp", a), S: s})
	}
	c.Static = rapid.IntRange(0, n).Draw(t, "static")
	c.Choice = rapid.IntRange(0, 1).Draw(t, "choice")
	return c
}

func c11OpsNT(c c11OpsCase) bool {
	one := ref.ToLE(big.NewInt(1), 32)
	nt := func(r c11Rep) bool { return r.J != 0 || !bytes.Equal(r.Lam, one) || r.Via == 2 }
	if nt(c.P) || nt(c.Q) || nt(c.C) {
		return true
	}
	for _, tm := range c.Terms {
		if nt(tm.P) {
			return true
		}
	}
	return false
}

func c11CheckOps(c c11OpsCase) h.Result {
	r := h.NewR().Class("s1:"+c.SCls[0], "q:"+c.QRel, "c:"+c.CRel)
	okScalar := func(b []byte, canonical bool) bool {
		if len(b) != 32 || b[31]&0x80 != 0 {
			return false
		}
		return !canonical || ref.FromLE(b).Cmp(ref.L) < 0
	}
	bad := !c.P.valid() || !c.Q.valid() || !c.C.valid() || c.P.J%2 != 0 || c.Q.J%2 != 0 || c.C.J%2 != 0 ||
		!okScalar(c.S1, false) || !okScalar(c.S2, false) || !okScalar(c.T1, true) || !okScalar(c.T2, true) ||
		c.Static < 0 || c.Static > len(c.Terms) || c.Choice < 0 || c.Choice > 1 || len(c.Terms) > 64
	for _, tm := range c.Terms {
		bad = bad || !tm.P.valid() || tm.P.J%2 != 0 || !okScalar(tm.S, false)
	}
	if bad {
		return r.Fail("harness:bad-case", "").Result()
	}
	r.NT(c11OpsNT(c))

	pr, qr, cr := c.P.point(), c.Q.point(), c.C.point()
	P, Q, C := c.P.build(pr), c.Q.build(qr), c.C.build(cr)
	encP, encQ := ref.RistEncode(pr), ref.RistEncode(qr)
	s1i, s2i := ref.FromLE(c.S1), ref.FromLE(c.S2)
	s1, s2 := c11Scalar(c.S1), c11Scalar(c.S2)
	desc := func() string {
		return "P=" + c.P.A.String() + "/T8[" + string(rune('0'+c.P.J)) + "]/lam=" + c.P.Lam.String() +
			" Q=" + c.Q.A.String() + "/T8[" + string(rune('0'+c.Q.J)) + "]/lam=" + c.Q.Lam.String()
	}
	// operands must never be modified by an operation
	snapP, snapQ := *P, *Q
	chk := func(name string, got *RistrettoPoint, want ref.Point) {
		r.Eval(1)
		g, w := c11Compress(got), ref.RistEncode(want)
		if !bytes.Equal(g, w) {
			r.Fail("RistrettoPoint."+name+":wrong-element", "%s s1=%x s2=%x got=%x want=%x", desc(), []byte(c.S1), []byte(c.S2), g, w)
		} else if _, malformed := c11Affine(got); malformed != "" {
			r.Fail("RistrettoPoint."+name+":malformed-point", "%s s1=%x s2=%x %s", desc(), []byte(c.S1), []byte(c.S2), malformed)
		}
		if !reflect.DeepEqual(*P, snapP) || !reflect.DeepEqual(*Q, snapQ) {
			r.Fail("RistrettoPoint."+name+":modified-operand", "%s", desc())
		}
	}
	np := func() *RistrettoPoint { return c11Marker() } // receivers start as a valid non-identity point

	// --- group law
	sum := ref.Add(pr, qr)
	chk("Add", np().Add(P, Q), sum)
	chk("Add", np().Add(Q, P), sum)
	chk("Sub", np().Sub(P, Q), ref.Sub(pr, qr))
	chk("Neg", np().Neg(P), ref.Neg(pr))
	x := np().Set(P)
	chk("Set", x, pr)
	chk("Add(alias)", x.Add(x, Q), sum)
	x = np().Set(Q)
	chk("Add(alias)", x.Add(P, x), sum)
	x = np().Set(P)
	chk("Add(double)", x.Add(x, x), ref.Double(pr))
	x = np().Set(P)
	chk("Sub(alias)", x.Sub(x, Q), ref.Sub(pr, qr))
	x = np().Set(P)
	chk("Neg(alias)", x.Neg(x), ref.Neg(pr))
	// P - P is the identity whatever the representatives
	r.Eval(1)
	x = np().Sub(P, np().Set(P))
	if !x.IsIdentity() || !bytes.Equal(c11Compress(x), c11Zero32) {
		r.Fail("RistrettoPoint.Sub:p-minus-p-not-identity", "%s got=%x", desc(), c11Compress(x))
	}
	// identity element
	id := NewRistrettoPoint()
	if !id.IsIdentity() || !bytes.Equal(c11Compress(id), c11Zero32) {
		r.Fail("NewRistrettoPoint:not-identity", "")
	}
	chk("Add(identity)", np().Add(P, id), pr)
	chk("Identity", np().Identity(), ref.Identity())

	// --- Equal / IsIdentity by index arithmetic
	r.Eval(2)
	same := ref.SMod(new(big.Int).Sub(c.P.a(), c.Q.a())).Sign() == 0
	if same != bytes.Equal(encP, encQ) || same != ref.RistEqual(pr, qr) {
		return r.Fail("harness:oracle-disagreement", "%s", desc()).Result()
	}
	if (P.Equal(Q) == 1) != same || (Q.Equal(P) == 1) != same {
		r.Fail("RistrettoPoint.Equal:wrong", "%s got=%d want same=%v", desc(), P.Equal(Q), same)
	}
	if P.IsIdentity() != (ref.SMod(c.P.a()).Sign() == 0) {
		r.Fail("RistrettoPoint.IsIdentity:wrong", "%s", desc())
	}

	// --- ConditionalSelect
	r.Eval(1)
	sel := np()
	sel.ConditionalSelect(P, Q, c.Choice)
	wantSel := encP
	if c.Choice == 1 {
		wantSel = encQ
	}
	if got := c11Compress(sel); !bytes.Equal(got, wantSel) {
		r.Fail("RistrettoPoint.ConditionalSelect:wrong", "%s choice=%d got=%x", desc(), c.Choice, got)
	}

	// --- scalar multiplication
	s1P := ref.Mul(s1i, pr)
	chk("Mul", np().Mul(P, s1), s1P)
	x = np().Set(P)
	chk("Mul(alias)", x.Mul(x, s1), s1P)
	s1B := ref.MulBase(s1i)
	chk("MulBasepoint", np().MulBasepoint(RISTRETTO_BASEPOINT_TABLE, s1), s1B)
	tbl := NewRistrettoBasepointTable(Q)
	r.Eval(1)
	if tbl.Basepoint().Equal(Q) != 1 {
		r.Fail("RistrettoBasepointTable.Basepoint:wrong", "%s", desc())
	}
	s2Q := ref.Mul(s2i, qr)
	chk("MulBasepoint(custom-table)", np().MulBasepoint(tbl, s2), s2Q)
	s2B := ref.MulBase(s2i)
	dbl := ref.Add(s1P, s2B)
	chk("DoubleScalarMulBasepointVartime", np().DoubleScalarMulBasepointVartime(s1, P, s2), dbl)
	x = np().Set(P)
	chk("DoubleScalarMulBasepointVartime(alias)", x.DoubleScalarMulBasepointVartime(s1, x, s2), dbl)
	eP := NewExpandedRistrettoPoint(P)
	chk("ExpandedRistrettoPoint.Point", eP.Point(), pr)
	chk("SetExpanded", np().SetExpanded(eP), pr)
	chk("ExpandedDoubleScalarMulBasepointVartime", np().ExpandedDoubleScalarMulBasepointVartime(s1, eP, s2), dbl)
	// an expanded point that held another point before
	eP2 := NewExpandedRistrettoPoint(Q)
	if ret := eP2.SetRistrettoPoint(P); ret != eP2 {
		r.Fail("ExpandedRistrettoPoint.SetRistrettoPoint:wrong-return", "")
	}
	chk("ExpandedRistrettoPoint.Point(reused)", eP2.Point(), pr)
	chk("ExpandedDoubleScalarMulBasepointVartime(reused)", np().ExpandedDoubleScalarMulBasepointVartime(s1, eP2, s2), dbl)

	// --- triple-base check: delta*(t1*P + t2*B - C), delta invertible: identity iff t1*P + t2*B = C
	t1i, t2i := ref.FromLE(c.T1), ref.FromLE(c.T2)
	t1, t2 := c11Scalar(c.T1), c11Scalar(c.T2)
	lhs := ref.SAdd(ref.SMul(t1i, c.P.a()), t2i)
	wantID := ref.SMod(new(big.Int).Sub(lhs, c.C.a())).Sign() == 0
	if wantID != ref.RistEqual(ref.Add(ref.Mul(t1i, pr), ref.MulBase(t2i)), cr) {
		return r.Fail("harness:oracle-disagreement", "triple: %s", desc()).Result()
	}
	r.Eval(2)
	// the decision, and the result as a VALUE: a group element whichever way the
	// decision goes (its encoding decodes under the reference; all zero exactly
	// for the identity)
	triple := func(name string, res *RistrettoPoint) {
		if got := res.IsIdentity(); got != wantID {
			r.Fail("RistrettoPoint."+name+":wrong-decision", "%s t1=%x t2=%x C=%x/T8[%d] got identity=%v", desc(), []byte(c.T1), []byte(c.T2), []byte(c.C.A), c.C.J, got)
			return
		}
		enc, err := res.MarshalBinary()
		if err != nil {
			r.Fail("RistrettoPoint."+name+":result-does-not-encode", "%v", err)
			return
		}
		if _, ok := ref.RistDecode(enc); !ok || bytes.Equal(enc, make([]byte, 32)) != wantID {
			r.Fail("RistrettoPoint."+name+":malformed-result", "%s: result encodes as %x (decodes under the reference: %v, identity expected: %v)", desc(), enc, ok, wantID)
		}
	}
	triple("TripleScalarMulBasepointVartime", np().TripleScalarMulBasepointVartime(t1, P, t2, C))
	triple("ExpandedTripleScalarMulBasepointVartime", np().ExpandedTripleScalarMulBasepointVartime(t1, eP, t2, C))

	// --- multiscalar wrappers and Sum
	n := len(c.Terms)
	var (
		scalars []*scalar.Scalar
		points  []*RistrettoPoint
		refPts  []ref.Point
		refKs   []*big.Int
	)
	plain := ref.Identity()
	for _, tm := range c.Terms {
		pt := tm.P.point()
		refPts = append(refPts, pt)
		refKs = append(refKs, ref.FromLE(tm.S))
		points = append(points, tm.P.build(pt))
		scalars = append(scalars, c11Scalar(tm.S))
		plain = ref.Add(plain, pt)
	}
	msm := ref.MSM(refKs, refPts)
	r.Class("terms:" + string(rune('0'+n%10)))
	chk("MultiscalarMul", np().MultiscalarMul(scalars, points), msm)
	chk("MultiscalarMulVartime", np().MultiscalarMulVartime(scalars, points), msm)
	var static []*ExpandedRistrettoPoint
	for _, p := range points[:c.Static] {
		static = append(static, NewExpandedRistrettoPoint(p))
	}
	chk("ExpandedMultiscalarMulVartime", np().ExpandedMultiscalarMulVartime(scalars[:c.Static], static, scalars[c.Static:], points[c.Static:]), msm)
	chk("Sum", np().Sum(points), plain)
	// (Sum with the receiver among the values is asserted by C03 - see
	// known_findings.txt, fixed in 227bd34.)
	chk("Sum(nil)", np().Sum(nil), ref.Identity())
	chk("Sum(empty)", np().Sum([]*RistrettoPoint{}), ref.Identity())
	return r.Result()
}

func TestC11Ops(t *testing.T) { h.Run(t, c11GenOps, c11CheckOps) }

// ---------------------------------------------------- many-term multiscalar

// Term counts around the Straus/Pippenger switch (190): points are small
// multiples of B in arbitrary representatives, so the expected element is
// [sum s_i a_i]B (one reference multiplication), independent of the torsion
// components because [s]T stays inside E[4].
type c11BigCase struct {
	N      int
	Seed   uint64
	Static int
}

func c11GenBig(t *rapid.T) c11BigCase {
	n := rapid.SampledFrom([]int{64, 189, 190, 191, 200}).Draw(t, "n")
	return c11BigCase{N: n, Seed: rapid.Uint64().Draw(t, "seed"), Static: rapid.IntRange(0, n).Draw(t, "static")}
}

func c11CheckBig(c c11BigCase) h.Result {
	r := h.NewR().Class("n:" + string(rune('0'+c.N/100)) + "xx").NT(true)
	if c.N < 0 || c.N > 400 || c.Static < 0 || c.Static > c.N {
		return r.Fail("harness:bad-case", "").Result()
	}
	rnd := h.Expand(c.Seed, c.N*72)
	var (
		scalars []*scalar.Scalar
		points  []*RistrettoPoint
	)
	acc := new(big.Int)
	for i := 0; i < c.N; i++ {
		chunk := rnd[i*72 : i*72+72]
		a := big.NewInt(int64(chunk[0]) | int64(chunk[1])<<8)
		j := 2 * int(chunk[2]&3)
		lam := ref.FMod(ref.FromLE(chunk[8:40]))
		if lam.Sign() == 0 || chunk[3]&3 == 0 {
			lam.SetInt64(1)
		}
		s := append([]byte(nil), chunk[40:72]...)
		switch chunk[4] & 7 {
		case 0:
			s[31] &= 0x0f // canonical
		case 1:
			s = ref.ToLE(big.NewInt(int64(chunk[5])), 32)
		default:
			s[31] &= 0x7f // 255-bit, mostly unreduced
		}
		pt := ref.Add(ref.MulBase(a), ref.Torsion8()[j])
		points = append(points, c11Inject(pt, lam))
		scalars = append(scalars, c11Scalar(s))
		acc = ref.SAdd(acc, ref.SMul(ref.FromLE(s), a))
	}
	want := ref.RistEncode(ref.MulBase(acc))
	chk := func(name string, got *RistrettoPoint) {
		r.Eval(1)
		if g := c11Compress(got); !bytes.Equal(g, want) {
			r.Fail("RistrettoPoint."+name+":wrong-element", "n=%d seed=%d static=%d got=%x want=%x", c.N, c.Seed, c.Static, g, want)
		}
	}
	chk("MultiscalarMulVartime", c11Marker().MultiscalarMulVartime(scalars, points))
	chk("MultiscalarMul", c11Marker().MultiscalarMul(scalars, points))
	var static []*ExpandedRistrettoPoint
	for _, p := range points[:c.Static] {
		static = append(static, NewExpandedRistrettoPoint(p))
	}
	chk("ExpandedMultiscalarMulVartime", c11Marker().ExpandedMultiscalarMulVartime(scalars[:c.Static], static, scalars[c.Static:], points[c.Static:]))
	return r.Result()
}

func TestC11ManyTerms(t *testing.T) { h.Run(t, c11GenBig, c11CheckBig) }

// ------------------------------------------------------------- constants

type c11ConstCase struct{ Name string }

func c11CheckConst(c c11ConstCase) h.Result {
	r := h.NewR().Class(c.Name).NT(true).Eval(1)
	want := ref.RistEncode(ref.Base)
	switch c.Name {
	case "RISTRETTO_BASEPOINT_COMPRESSED":
		if !bytes.Equal(RISTRETTO_BASEPOINT_COMPRESSED[:], want) {
			r.Fail("RISTRETTO_BASEPOINT_COMPRESSED:wrong", "got=%x want=%x", RISTRETTO_BASEPOINT_COMPRESSED[:], want)
		}
	case "RISTRETTO_BASEPOINT_POINT":
		if got := c11Compress(RISTRETTO_BASEPOINT_POINT); !bytes.Equal(got, want) {
			r.Fail("RISTRETTO_BASEPOINT_POINT:wrong", "got=%x want=%x", got, want)
		}
	case "RISTRETTO_BASEPOINT_TABLE":
		if got := c11Compress(RISTRETTO_BASEPOINT_TABLE.Basepoint()); !bytes.Equal(got, want) {
			r.Fail("RISTRETTO_BASEPOINT_TABLE:wrong", "got=%x want=%x", got, want)
		}
	case "NewCompressedRistretto":
		if cp := NewCompressedRistretto(); !bytes.Equal(cp[:], c11Zero32) {
			r.Fail("NewCompressedRistretto:not-identity", "got=%x", cp[:])
		}
		var cp CompressedRistretto
		copy(cp[:], want)
		if cp.Identity(); !bytes.Equal(cp[:], c11Zero32) {
			r.Fail("CompressedRistretto.Identity:not-identity", "got=%x", cp[:])
		}
	default:
		r.Fail("harness:bad-case", "%s", c.Name)
	}
	return r.Result()
}

func TestC11Constants(t *testing.T) {
	h.RunList(t, []c11ConstCase{{"RISTRETTO_BASEPOINT_COMPRESSED"}, {"RISTRETTO_BASEPOINT_POINT"}, {"RISTRETTO_BASEPOINT_TABLE"}, {"NewCompressedRistretto"}}, c11CheckConst)
}
