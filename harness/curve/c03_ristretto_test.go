//go:build verif

package curve_test

// C03 — the RistrettoPoint wrappers of the group law and of every
// scalar-multiplication entry point.  A ristretto255 element is a coset
// P + E[4]; points are built as [a]B + T[j] with j even, enter the library as
// the RFC 9496 encoding computed by the reference, and every result is compared
// with the reference encoding of the expected coset.

import (
	"bytes"
	"testing"

	"github.com/oasisprotocol/curve25519-voi/curve"
	"github.com/oasisprotocol/curve25519-voi/curve/scalar"
	"pgregory.net/rapid"
	h "verifh"
	ref "verifref"
)

func c03RLoad(r *h.R, rp ref.Point, mode int) (*curve.RistrettoPoint, bool) {
	enc := ref.RistEncode(rp)
	var cp curve.CompressedRistretto
	if _, err := cp.SetBytes(enc); err != nil {
		panic(err)
	}
	p := curve.NewRistrettoPoint()
	if _, err := p.SetCompressed(&cp); err != nil {
		r.Fail("RistrettoPoint.SetCompressed:rejected-valid-encoding", "enc=%x err=%v", enc, err)
		return nil, false
	}
	aux := curve.RISTRETTO_BASEPOINT_POINT
	switch mode % 4 {
	case 1:
		q := curve.NewRistrettoPoint().Add(p, aux)
		p = q.Sub(q, aux)
	case 2:
		p = curve.NewRistrettoPoint().Add(curve.NewRistrettoPoint(), p)
	case 3:
		q := curve.NewRistrettoPoint().Sub(p, aux)
		p = q.Add(q, aux)
	}
	r.Eval(1)
	if got := c03REnc(p); !bytes.Equal(got, enc) {
		r.Fail("RistrettoPoint:load-rerepresent-changed-point", "mode=%d enc=%x got=%x", mode%4, enc, got)
		return nil, false
	}
	return p, true
}

func c03REnc(p *curve.RistrettoPoint) []byte {
	b, err := p.MarshalBinary()
	if err != nil {
		panic(err)
	}
	return b
}

func c03RExpect(r *h.R, op string, got *curve.RistrettoPoint, want ref.Point) {
	r.Eval(1)
	if g, w := c03REnc(got), ref.RistEncode(want); !bytes.Equal(g, w) {
		r.Fail("RistrettoPoint."+op+":wrong-result", "got=%x want=%x", g, w)
	}
}

type c03RCase struct {
	P, Q       h.PointSpec // torsion component in E[4]
	RepP, RepQ int
	S, S2      h.Hex
	SC, S2C    string
	Terms      []h.C03Term
	Static     int
	RepSeed    uint64
	Direct     bool
}

func c03GenR(t *rapid.T) c03RCase {
	var c c03RCase
	c.P = h.C03GenPoint(t, "p", false, true)
	switch rapid.IntRange(0, 7).Draw(t, "rel") {
	case 0:
		c.Q = c.P
	case 1: // same coset, different representative
		c.Q = h.PointSpec{A: c.P.A, J: (c.P.J + 2*rapid.IntRange(1, 3).Draw(t, "qj")) % 8, Cls: "same-coset"}
	case 2:
		c.Q = h.PointSpec{A: h.Hex(ref.SEncode(ref.SNeg(ref.FromLE(c.P.A)))), J: (8 - c.P.J%8) % 8, Cls: "neg-of-p"}
	default:
		c.Q = h.C03GenPoint(t, "q", false, true)
	}
	c.RepP = rapid.IntRange(0, 3).Draw(t, "repp")
	c.RepQ = rapid.IntRange(0, 3).Draw(t, "repq")
	c.S, c.SC = h.C03GenScalar(t, "s")
	c.S2, c.S2C = h.C03GenScalar(t, "s2")
	var n int
	switch k := rapid.IntRange(0, 19).Draw(t, "nk"); {
	case k == 0:
		n = []int{189, 190, 191, 192}[h.C03UniformIndex(t, 4, "n")]
	case k < 12:
		n = rapid.SampledFrom(h.C03SmallN).Draw(t, "n")
	default:
		n = rapid.IntRange(0, 24).Draw(t, "n")
	}
	c.Terms = h.C03GenTerms(t, n, n > 8, true)
	c.Static = rapid.IntRange(0, n).Draw(t, "static")
	c.RepSeed = rapid.Uint64().Draw(t, "rep")
	c.Direct = n <= 8 && rapid.IntRange(0, 7).Draw(t, "direct") == 0
	return c
}

func c03CheckR(c c03RCase) h.Result {
	n := len(c.Terms)
	r := h.NewR().Class("p:"+c03SpecCls(c.P), "q:"+c03SpecCls(c.Q), "s:"+c.SC, "s2:"+c.S2C, "n="+c03NClass(n))
	r.NT(h.C03PointNonTrivial(c.P) || h.C03PointNonTrivial(c.Q) || h.C03ScalarNonTrivial(c.S, c.SC) ||
		h.C03ScalarNonTrivial(c.S2, c.S2C) || h.C03TermsNonTrivial(c.Terms))
	if c.P.J%2 != 0 || c.Q.J%2 != 0 {
		return r.Class("skipped:odd-torsion").Result() // not a ristretto element (only via hand-edited replay files)
	}
	for _, tm := range c.Terms {
		if tm.P.J%2 != 0 {
			return r.Class("skipped:odd-torsion").Result()
		}
	}
	if c.Static < 0 || c.Static > n {
		c.Static = n
	}
	pr, qr := h.C03SpecPoint(c.P), h.C03SpecPoint(c.Q)
	p, ok := c03RLoad(r, pr, c.RepP)
	if !ok {
		return r.Result()
	}
	q, ok := c03RLoad(r, qr, c.RepQ)
	if !ok {
		return r.Result()
	}
	cp := func(x *curve.RistrettoPoint) *curve.RistrettoPoint { return curve.NewRistrettoPoint().Set(x) }
	New := func() *curve.RistrettoPoint { return cp(curve.RISTRETTO_BASEPOINT_POINT) } // stale receiver
	pEnc, qEnc := ref.RistEncode(pr), ref.RistEncode(qr)
	same := bytes.Equal(pEnc, qEnc)
	if same != ref.RistEqual(pr, qr) {
		h.C03OracleFailure("RistEqual vs RistEncode p=%+v q=%+v", c.P, c.Q)
	}
	if same {
		r.Class("p~q")
	}

	// group law
	c03RExpect(r, "Add", New().Add(p, q), ref.Add(pr, qr))
	c03RExpect(r, "Sub", New().Sub(p, q), ref.Sub(pr, qr))
	c03RExpect(r, "Neg", New().Neg(p), ref.Neg(pr))
	c03RExpect(r, "Add(p,p)", New().Add(p, p), ref.Double(pr))
	x := cp(p)
	c03RExpect(r, "Add(alias)", x.Add(x, q), ref.Add(pr, qr))
	x = cp(q)
	c03RExpect(r, "Sub(alias)", x.Sub(p, x), ref.Sub(pr, qr))
	x = cp(p)
	c03RExpect(r, "Neg(alias)", x.Neg(x), ref.Neg(pr))
	c03RExpect(r, "Sum", New().Sum([]*curve.RistrettoPoint{p, q, p}), ref.Add(ref.Add(pr, qr), pr))
	c03RExpect(r, "Sum(empty)", cp(p).Sum(nil), ref.Identity())
	x = cp(p)
	c03RExpect(r, "Sum(alias)", x.Sum([]*curve.RistrettoPoint{x, q}), ref.Add(pr, qr))
	x = cp(q)
	c03RExpect(r, "Sum(alias)", x.Sum([]*curve.RistrettoPoint{p, x, p}), ref.Add(ref.Add(pr, qr), pr))
	r.Eval(2)
	if got := p.Equal(q); (got == 1) != same || (got != 0 && got != 1) {
		r.Fail("RistrettoPoint.Equal:wrong", "p=%x q=%x got=%d", pEnc, qEnc, got)
	}
	if got := p.IsIdentity(); got != c.P.IsSmallOrder() {
		r.Fail("RistrettoPoint.IsIdentity:wrong", "p=%x got=%v", pEnc, got)
	}

	// single / double scalar multiplication
	s, s2 := c03Scalar(c.S), c03Scalar(c.S2)
	pz := h.PointSpec{A: c.P.A, J: c.P.J}
	sP := h.C03Expected([]h.C03Term{{P: pz, S: c.S}}, false)
	s2P := h.C03Expected([]h.C03Term{{P: pz, S: c.S2}}, false)
	sB := h.C03Expected([]h.C03Term{{P: c03SpecB, S: c.S}}, false)
	sPs2B := h.C03Expected([]h.C03Term{{P: pz, S: c.S}, {P: c03SpecB, S: c.S2}}, c.Direct)
	c03RExpect(r, "Mul", New().Mul(p, s), sP)
	x = cp(p)
	c03RExpect(r, "Mul(alias)", x.Mul(x, s), sP)
	c03RExpect(r, "MulBasepoint(RISTRETTO_BASEPOINT_TABLE)", New().MulBasepoint(curve.RISTRETTO_BASEPOINT_TABLE, s), sB)
	c03RExpect(r, "RistrettoBasepointTable.Basepoint(RISTRETTO)", curve.RISTRETTO_BASEPOINT_TABLE.Basepoint(), ref.Base)
	tbl := curve.NewRistrettoBasepointTable(p)
	c03RExpect(r, "RistrettoBasepointTable.Basepoint", tbl.Basepoint(), pr)
	c03RExpect(r, "MulBasepoint(NewRistrettoBasepointTable)", New().MulBasepoint(tbl, s), sP)
	c03RExpect(r, "MulBasepoint(NewRistrettoBasepointTable)", New().MulBasepoint(tbl, s2), s2P)
	c03RExpect(r, "DoubleScalarMulBasepointVartime", New().DoubleScalarMulBasepointVartime(s, p, s2), sPs2B)
	ep := curve.NewExpandedRistrettoPoint(p)
	c03RExpect(r, "ExpandedRistrettoPoint.Point", ep.Point(), pr)
	c03RExpect(r, "SetExpanded", New().SetExpanded(ep), pr)
	c03RExpect(r, "ExpandedDoubleScalarMulBasepointVartime", New().ExpandedDoubleScalarMulBasepointVartime(s, ep, s2), sPs2B)
	// the point handed out by Point() is the caller's; a by-value snapshot keeps
	// standing for its own point after the original is re-set
	hand := ep.Point()
	hand.Add(hand, curve.RISTRETTO_BASEPOINT_POINT)
	c03RExpect(r, "ExpandedRistrettoPoint.Point(after-caller-modified-the-returned-point)", ep.Point(), pr)
	c03RExpect(r, "ExpandedDoubleScalarMulBasepointVartime(after-caller-modified-the-returned-point)", New().ExpandedDoubleScalarMulBasepointVartime(s, ep, s2), sPs2B)
	snap := *ep
	ep.SetRistrettoPoint(curve.RISTRETTO_BASEPOINT_POINT)
	c03RExpect(r, "ExpandedRistrettoPoint(value-copy).Point", snap.Point(), pr)
	c03RExpect(r, "ExpandedDoubleScalarMulBasepointVartime(value-copy,original-reset)", New().ExpandedDoubleScalarMulBasepointVartime(s, &snap, s2), sPs2B)
	c03RExpect(r, "ExpandedRistrettoPoint.Point(original-after-reset)", ep.Point(), ref.Base)

	// multiscalar
	rps := h.C03Points(c.Terms)
	modes := h.Expand(c.RepSeed, n)
	pts := make([]*curve.RistrettoPoint, n)
	scs := make([]*scalar.Scalar, n)
	for i := range c.Terms {
		if pts[i], ok = c03RLoad(r, rps[i], int(modes[i])); !ok {
			return r.Result()
		}
		scs[i] = c03Scalar(c.Terms[i].S)
	}
	want := h.C03Expected(c.Terms, c.Direct)
	c03RExpect(r, "MultiscalarMul", New().MultiscalarMul(scs, pts), want)
	c03RExpect(r, "MultiscalarMulVartime", New().MultiscalarMulVartime(scs, pts), want)
	eps := make([]*curve.ExpandedRistrettoPoint, c.Static)
	for i := range eps {
		eps[i] = curve.NewExpandedRistrettoPoint(pts[i])
	}
	c03RExpect(r, "ExpandedMultiscalarMulVartime", New().ExpandedMultiscalarMulVartime(scs[:c.Static], eps, scs[c.Static:], pts[c.Static:]), want)
	if n > 0 {
		// the receiver is one of the input points
		for _, k := range []int{0, n - 1} {
			al := append([]*curve.RistrettoPoint(nil), pts...)
			al[k] = cp(pts[k])
			c03RExpect(r, "MultiscalarMul(receiver-is-an-input-point)", al[k].MultiscalarMul(scs, al), want)
			al[k] = cp(pts[k])
			c03RExpect(r, "MultiscalarMulVartime(receiver-is-an-input-point)", al[k].MultiscalarMulVartime(scs, al), want)
		}
	}

	r.Eval(1)
	if !bytes.Equal(c03REnc(p), pEnc) || !bytes.Equal(c03REnc(q), qEnc) || !bytes.Equal(c03ScalarBytes(s), c.S) {
		r.Fail("RistrettoPoint:operand-modified", "p=%x q=%x", pEnc, qEnc)
	}
	for i := range pts {
		if !bytes.Equal(c03REnc(pts[i]), ref.RistEncode(rps[i])) {
			r.Fail("RistrettoPoint.MultiscalarMul*:operand-modified", "i=%d", i)
		}
	}
	return r.Result()
}

func TestC03Ristretto(t *testing.T) { h.Run(t, c03GenR, c03CheckR) }
