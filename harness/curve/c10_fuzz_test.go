//go:build verif

package curve_test

import (
	"testing"

	h "verifh"
)

// Coverage-guided variants of the decoder properties (thorough tier).
func FuzzC10Decode(f *testing.F) { h.Fuzz(f, c10GenDec, c10CheckDec) }
func FuzzC10AnyLen(f *testing.F) { h.Fuzz(f, c10GenAnyLen, c10CheckAnyLen) }
