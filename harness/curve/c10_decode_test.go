//go:build verif

package curve_test

// C10 — Edwards point decoding, encoding and the canonicity predicate are
// exact.  External test: only the exported API is used.  Oracle: verifref
// (math/big affine arithmetic, independent square root).

import (
	"bytes"
	"math/big"
	"testing"

	"github.com/oasisprotocol/curve25519-voi/curve"
	"pgregory.net/rapid"
	h "verifh"
	ref "verifref"
)

var c10IdentityBytes = append([]byte{1}, make([]byte, 31)...)

// c10Marker returns a valid non-identity point used to pre-load receivers so
// that "receiver is the identity after an error" is observable.
func c10Marker() *curve.EdwardsPoint {
	var cp curve.CompressedEdwardsY
	if _, err := cp.SetBytes(ref.Base.Encode()); err != nil {
		panic(err)
	}
	p, err := curve.NewEdwardsPoint().SetCompressedY(&cp)
	if err != nil {
		panic(err)
	}
	return p
}

// c10ActsAsIdentity checks that p is the identity in ALL coordinates, not only
// in the ones an encoding or IsIdentity looks at: B + p, p + p and B - p must be
// B, the identity and B (a stale T coordinate shows up in the additions).
func c10ActsAsIdentity(p *curve.EdwardsPoint) bool {
	B := curve.ED25519_BASEPOINT_POINT
	bEnc := c10Marshal(B)
	return bytes.Equal(c10Marshal(curve.NewEdwardsPoint().Add(B, p)), bEnc) &&
		bytes.Equal(c10Marshal(curve.NewEdwardsPoint().Add(p, B)), bEnc) &&
		bytes.Equal(c10Marshal(curve.NewEdwardsPoint().Sub(B, p)), bEnc) &&
		bytes.Equal(c10Marshal(curve.NewEdwardsPoint().Add(p, p)), c10IdentityBytes) &&
		p.IsTorsionFree() && p.IsSmallOrder()
}

func c10Marshal(p *curve.EdwardsPoint) []byte {
	b, err := p.MarshalBinary()
	if err != nil {
		panic(err)
	}
	return b
}

// c10CanonicalByBytes is the property's definition of the canonicity test,
// evaluated on the bytes alone: y < p and not one of the two x = 0 encodings
// (y = 1, y = p-1) with the sign bit set.
func c10CanonicalByBytes(in []byte) bool {
	c := append([]byte(nil), in...)
	sign := c[31] >> 7
	c[31] &= 0x7f
	y := ref.FromLE(c)
	if y.Cmp(ref.P) >= 0 {
		return false
	}
	if sign == 1 && (y.Cmp(big.NewInt(1)) == 0 || y.Cmp(new(big.Int).Sub(ref.P, big.NewInt(1))) == 0) {
		return false
	}
	return true
}

type c10DecCase struct {
	In  h.Hex
	Cls string
}

func c10GenDec(t *rapid.T) c10DecCase {
	b, cls := h.GenPointBytes(t, "in")
	if rapid.IntRange(0, 7).Draw(t, "hi") == 0 {
		b[31] ^= 0x80
		cls += "^sign"
	}
	return c10DecCase{In: b, Cls: cls}
}

func c10CheckDec(c c10DecCase) h.Result {
	r := h.NewR().Class(c.Cls)
	if len(c.In) != 32 {
		return r.Fail("harness:bad-case", "len=%d", len(c.In)).Result()
	}
	in := append([]byte(nil), c.In...)
	di := ref.Decode(in)
	canon := c10CanonicalByBytes(in)
	if canon != (di.YCanon && !di.XZeroSign) {
		// two independent statements of the same definition must agree
		return r.Fail("harness:oracle-disagreement", "in=%x bytes-rule=%v decode-rule=%v", in, canon, di.YCanon && !di.XZeroSign).Result()
	}
	small := di.OK && ref.IsSmallOrder(di.P)
	switch {
	case !di.OK:
		r.Class("off-curve")
	case !di.Canonical:
		r.Class("non-canonical")
	case small:
		r.Class("canonical-torsion")
	default:
		r.Class("canonical-large-order")
	}
	r.NT(!di.OK || !di.Canonical || small)
	var want []byte
	if di.OK {
		want = di.P.Encode()
	}

	// --- CompressedEdwardsY.SetBytes / NewCompressedEdwardsYFromBytes: raw copy
	r.Eval(1)
	cp, err := curve.NewCompressedEdwardsYFromBytes(in)
	if err != nil || cp == nil || !bytes.Equal(cp[:], in) {
		return r.Fail("CompressedEdwardsY.SetBytes:wrong", "in=%x err=%v", in, err).Result()
	}

	// --- IsCanonicalVartime
	r.Eval(1)
	if got := cp.IsCanonicalVartime(); got != canon {
		r.Fail("CompressedEdwardsY.IsCanonicalVartime:wrong-decision", "in=%x got=%v want=%v", in, got, canon)
	}

	// --- SetCompressedY
	r.Eval(1)
	recv := c10Marker()
	ret, err := recv.SetCompressedY(cp)
	if (err == nil) != di.OK {
		r.Fail("EdwardsPoint.SetCompressedY:wrong-decision", "in=%x err=%v reference-on-curve=%v", in, err, di.OK)
	} else if di.OK {
		if ret != recv {
			r.Fail("EdwardsPoint.SetCompressedY:wrong-return", "in=%x", in)
		} else if got := c10Marshal(recv); !bytes.Equal(got, want) {
			r.Fail("EdwardsPoint.SetCompressedY:wrong-point", "in=%x re-encoded=%x want=%x", in, got, want)
		}
		// the decoded value is a consistent extended point (T = XY/Z): it
		// must behave as the reference point in arithmetic that reads T
		r.Eval(1)
		// (P + B, B the base point: P + P would be blind to the sign of T)
		sum := curve.NewEdwardsPoint().Add(recv, c10Marker())
		if got, w2 := c10Marshal(sum), ref.Add(di.P, ref.Base).Encode(); !bytes.Equal(got, w2) {
			r.Fail("EdwardsPoint.SetCompressedY:inconsistent-extended-coordinates", "in=%x P+B=%x want=%x", in, got, w2)
		}
		// the compressed form of the decoded point is the canonical encoding
		var cp2 curve.CompressedEdwardsY
		cp2.SetEdwardsPoint(recv)
		if !bytes.Equal(cp2[:], want) {
			r.Fail("CompressedEdwardsY.SetEdwardsPoint:not-canonical", "in=%x got=%x want=%x", in, cp2[:], want)
		}
		if !cp2.IsCanonicalVartime() {
			r.Fail("CompressedEdwardsY.IsCanonicalVartime:rejects-encoder-output", "enc=%x", cp2[:])
		}
		if di.Canonical && !bytes.Equal(cp2[:], in) {
			r.Fail("EdwardsPoint.MarshalBinary:roundtrip-not-identity", "in=%x out=%x", in, cp2[:])
		}
		// byte comparison of compressed forms
		if (cp.Equal(&cp2) == 1) != bytes.Equal(in, want) {
			r.Fail("CompressedEdwardsY.Equal:wrong", "a=%x b=%x got=%d", in, want, cp.Equal(&cp2))
		}
		// a point decoded from a (possibly non-canonical) string equals the
		// point decoded from its canonical encoding (documented on Equal)
		var cpc curve.CompressedEdwardsY
		_, _ = cpc.SetBytes(want)
		pc, err := curve.NewEdwardsPoint().SetCompressedY(&cpc)
		if err != nil {
			r.Fail("EdwardsPoint.SetCompressedY:rejected-canonical", "enc=%x err=%v", want, err)
		} else if recv.Equal(pc) != 1 || pc.Equal(recv) != 1 {
			r.Fail("EdwardsPoint.Equal:noncanonical-vs-canonical", "in=%x canonical=%x", in, want)
		}
	} else if ret != nil {
		r.Fail("EdwardsPoint.SetCompressedY:non-nil-on-error", "in=%x", in)
	}

	// --- EdwardsPoint.UnmarshalBinary
	r.Eval(1)
	recv = c10Marker()
	err = recv.UnmarshalBinary(in)
	if (err == nil) != di.OK {
		r.Fail("EdwardsPoint.UnmarshalBinary:wrong-decision", "in=%x err=%v reference-on-curve=%v", in, err, di.OK)
	} else if di.OK {
		if got := c10Marshal(recv); !bytes.Equal(got, want) {
			r.Fail("EdwardsPoint.UnmarshalBinary:wrong-point", "in=%x re-encoded=%x want=%x", in, got, want)
		}
	} else {
		if !recv.IsIdentity() || !bytes.Equal(c10Marshal(recv), c10IdentityBytes) {
			r.Fail("EdwardsPoint.UnmarshalBinary:receiver-not-identity-on-error", "in=%x receiver=%x", in, c10Marshal(recv))
		} else if !c10ActsAsIdentity(recv) {
			r.Fail("EdwardsPoint.UnmarshalBinary:receiver-encodes-as-identity-but-does-not-act-as-identity", "in=%x: B+recv != B (stale coordinate left in the receiver)", in)
		}
	}

	// --- CompressedEdwardsY.UnmarshalBinary
	r.Eval(1)
	var cu curve.CompressedEdwardsY
	_, _ = cu.SetBytes(ref.Base.Encode())
	err = cu.UnmarshalBinary(in)
	if (err == nil) != di.OK {
		r.Fail("CompressedEdwardsY.UnmarshalBinary:wrong-decision", "in=%x err=%v reference-on-curve=%v", in, err, di.OK)
	} else if di.OK {
		// the stored string must denote the same point (it may keep the
		// non-canonical spelling: "accepts non-canonical encodings")
		d2 := ref.Decode(cu[:])
		if !d2.OK || !d2.P.Equal(di.P) {
			r.Fail("CompressedEdwardsY.UnmarshalBinary:wrong-point", "in=%x stored=%x", in, cu[:])
		}
		// MarshalBinary of the compressed form: the same point again (its doc
		// comment promises canonical output, the code returns the stored
		// spelling; either is accepted here)
		mb, err := cu.MarshalBinary()
		if d3 := ref.Decode(mb); err != nil || !d3.OK || !d3.P.Equal(di.P) {
			r.Fail("CompressedEdwardsY.MarshalBinary:wrong-point", "stored=%x out=%x err=%v", cu[:], mb, err)
		}
	} else if !bytes.Equal(cu[:], c10IdentityBytes) {
		r.Fail("CompressedEdwardsY.UnmarshalBinary:receiver-not-identity-on-error", "in=%x receiver=%x", in, cu[:])
	}

	// --- the same call on a receiver that ALREADY HOLDS these 32 bytes (put there without validation by SetBytes, the
	// constructor or an array literal): the decision is a function of the string, not of the receiver's history
	r.Eval(1)
	var cs curve.CompressedEdwardsY
	_, _ = cs.SetBytes(in)
	err = cs.UnmarshalBinary(in)
	if (err == nil) != di.OK {
		r.Fail("CompressedEdwardsY.UnmarshalBinary(receiver-holds-the-input):wrong-decision", "in=%x err=%v reference-on-curve=%v", in, err, di.OK)
	} else if !di.OK && !bytes.Equal(cs[:], c10IdentityBytes) {
		r.Fail("CompressedEdwardsY.UnmarshalBinary(receiver-holds-the-input):receiver-not-identity-on-error", "in=%x receiver=%x", in, cs[:])
	} else if di.OK {
		if d2 := ref.Decode(cs[:]); !d2.OK || !d2.P.Equal(di.P) {
			r.Fail("CompressedEdwardsY.UnmarshalBinary(receiver-holds-the-input):wrong-point", "in=%x stored=%x", in, cs[:])
		}
	}

	if !bytes.Equal(in, c.In) {
		r.Fail("edwards-decoders:input-modified", "in=%x", []byte(c.In))
	}
	return r.Result()
}

func TestC10Decode(t *testing.T) { h.Run(t, c10GenDec, c10CheckDec) }

// TestC10DecodeList is the exhaustive part: all 38 strings with y in
// [p, 2^255) (both sign bits), the 8 torsion points under both sign bits,
// y = 1 / y = p-1 (x = 0) with both sign bits, every entry of the recomputed
// non-canonical list, and all y in [0, 64) and (p-64, p) with both sign bits.
func TestC10DecodeList(t *testing.T) {
	var cases []c10DecCase
	seen := map[string]bool{}
	add := func(b []byte, cls string) {
		if seen[string(b)] {
			return
		}
		seen[string(b)] = true
		cases = append(cases, c10DecCase{In: append([]byte(nil), b...), Cls: cls})
	}
	both := func(y *big.Int, cls string) {
		for s := byte(0); s < 2; s++ {
			b := ref.ToLE(y, 32)
			b[31] |= s << 7
			add(b, cls)
		}
	}
	for _, y := range h.NonCanonicalYs() {
		both(y, "list:y>=p")
	}
	for _, tp := range ref.Torsion8() {
		both(tp.Y, "list:torsion")
	}
	both(big.NewInt(1), "list:x=0")
	both(new(big.Int).Sub(ref.P, big.NewInt(1)), "list:x=0")
	for _, b := range h.AllNonCanonicalPointStrings() {
		add(b, "list:noncanonical")
	}
	for k := int64(0); k < 64; k++ {
		both(big.NewInt(k), "list:small-y")
		both(new(big.Int).Sub(ref.P, big.NewInt(k+1)), "list:p-small")
	}
	// first bytes around the 237 threshold of the succeed-fast canonicity test,
	// with every other byte 0xff: y = 2^255 - 256 + b0
	for b0 := 0; b0 < 256; b0++ {
		b := bytes.Repeat([]byte{0xff}, 32)
		b[0] = byte(b0)
		add(b, "list:ff-prefix")
		b[31] = 0x7f
		add(b, "list:ff-prefix")
	}
	// one non-0xff byte at each position, b[0] >= 237: exercises every step of
	// the succeed-fast loop
	for i := 1; i < 32; i++ {
		for _, b0 := range []byte{236, 237, 238, 255} {
			for _, top := range []byte{0x7f, 0xff} {
				b := bytes.Repeat([]byte{0xff}, 32)
				b[0], b[31] = b0, top
				if i == 31 {
					b[31] = top &^ 0x01
				} else {
					b[i] = 0xfe
				}
				add(b, "list:one-byte-not-ff")
			}
		}
	}
	h.RunList(t, cases, c10CheckDec)
}

// ------------------------------------------------------------ wrong lengths

type c10LenCase struct {
	N    int
	Fill string // "zero", "ff", "base" (cyclic copy of the base point encoding), "one"
}

func c10LenBytes(c c10LenCase) []byte {
	b := make([]byte, c.N)
	switch c.Fill {
	case "ff":
		for i := range b {
			b[i] = 0xff
		}
	case "base":
		e := ref.Base.Encode()
		for i := range b {
			b[i] = e[i%32]
		}
	case "one":
		if c.N > 0 {
			b[0] = 1
		}
	}
	return b
}

func c10CheckLenBytes(r *h.R, in []byte) {
	n := len(in)
	orig := append([]byte(nil), in...)
	wrong := n != 32

	// EdwardsPoint.UnmarshalBinary
	r.Eval(1)
	recv := c10Marker()
	var err error
	if p, v := h.Catch(func() { err = recv.UnmarshalBinary(in) }); p {
		r.Fail("EdwardsPoint.UnmarshalBinary:panic", "len=%d: %v", n, v)
	} else if wrong {
		if err == nil {
			r.Fail("EdwardsPoint.UnmarshalBinary:accepted-wrong-length", "len=%d in=%x", n, in)
		}
		if !recv.IsIdentity() {
			r.Fail("EdwardsPoint.UnmarshalBinary:receiver-not-identity-on-error", "len=%d receiver=%x", n, c10Marshal(recv))
		} else if !c10ActsAsIdentity(recv) {
			r.Fail("EdwardsPoint.UnmarshalBinary:receiver-encodes-as-identity-but-does-not-act-as-identity", "len=%d: B+recv != B (stale coordinate left in the receiver)", n)
		}
	}

	// CompressedEdwardsY.UnmarshalBinary
	r.Eval(1)
	var cu curve.CompressedEdwardsY
	_, _ = cu.SetBytes(ref.Base.Encode())
	if p, v := h.Catch(func() { err = cu.UnmarshalBinary(in) }); p {
		r.Fail("CompressedEdwardsY.UnmarshalBinary:panic", "len=%d: %v", n, v)
	} else if wrong {
		if err == nil {
			r.Fail("CompressedEdwardsY.UnmarshalBinary:accepted-wrong-length", "len=%d in=%x", n, in)
		}
		if !bytes.Equal(cu[:], c10IdentityBytes) {
			r.Fail("CompressedEdwardsY.UnmarshalBinary:receiver-not-identity-on-error", "len=%d receiver=%x", n, cu[:])
		}
	}

	// CompressedEdwardsY.SetBytes / constructor / MontgomeryPoint.SetBytes
	r.Eval(3)
	var cs curve.CompressedEdwardsY
	var ret *curve.CompressedEdwardsY
	if p, v := h.Catch(func() { ret, err = cs.SetBytes(in) }); p {
		r.Fail("CompressedEdwardsY.SetBytes:panic", "len=%d: %v", n, v)
	} else if wrong != (err != nil) || wrong != (ret == nil) {
		r.Fail("CompressedEdwardsY.SetBytes:wrong-length-decision", "len=%d err=%v", n, err)
	} else if !wrong && !bytes.Equal(cs[:], in) {
		r.Fail("CompressedEdwardsY.SetBytes:wrong", "in=%x", in)
	}
	if p, v := h.Catch(func() { ret, err = curve.NewCompressedEdwardsYFromBytes(in) }); p {
		r.Fail("NewCompressedEdwardsYFromBytes:panic", "len=%d: %v", n, v)
	} else if wrong != (err != nil) || wrong != (ret == nil) {
		r.Fail("NewCompressedEdwardsYFromBytes:wrong-length-decision", "len=%d err=%v", n, err)
	}
	var mp curve.MontgomeryPoint
	var mret *curve.MontgomeryPoint
	if p, v := h.Catch(func() { mret, err = mp.SetBytes(in) }); p {
		r.Fail("MontgomeryPoint.SetBytes:panic", "len=%d: %v", n, v)
	} else if wrong != (err != nil) || wrong != (mret == nil) {
		r.Fail("MontgomeryPoint.SetBytes:wrong-length-decision", "len=%d err=%v", n, err)
	} else if !wrong && !bytes.Equal(mp[:], in) {
		r.Fail("MontgomeryPoint.SetBytes:wrong", "in=%x", in)
	}
	if !bytes.Equal(in, orig) {
		r.Fail("edwards-decoders:input-modified", "len=%d", n)
	}
}

func c10CheckLen(c c10LenCase) h.Result {
	r := h.NewR().Class("len", "fill:"+c.Fill).NT(c.N != 32)
	c10CheckLenBytes(r, c10LenBytes(c))
	return r.Result()
}

func TestC10Lengths(t *testing.T) {
	var cases []c10LenCase
	for n := 0; n <= 70; n++ {
		for _, f := range []string{"zero", "ff", "base", "one"} {
			cases = append(cases, c10LenCase{N: n, Fill: f})
		}
	}
	for _, n := range []int{96, 127, 128, 255, 256, 1024} {
		cases = append(cases, c10LenCase{N: n, Fill: "base"})
	}
	h.RunList(t, cases, c10CheckLen)
}

// Byte strings of arbitrary length and content (valid encodings truncated /
// extended, random bytes).
type c10AnyLenCase struct {
	In  h.Hex
	Cls string
}

func c10GenAnyLen(t *rapid.T) c10AnyLenCase {
	n := h.HostileLen(t, 32, "n")
	if n == 32 {
		n = rapid.SampledFrom([]int{0, 16, 31, 33, 48, 63, 64, 65}).Draw(t, "n2")
	}
	var b []byte
	cls := "random"
	if rapid.Bool().Draw(t, "valid") {
		enc, _ := h.GenPointBytes(t, "enc")
		b = make([]byte, n)
		for i := range b {
			b[i] = enc[i%32]
		}
		if n > 32 && rapid.Bool().Draw(t, "padzero") {
			for i := 32; i < n; i++ {
				b[i] = 0
			}
		}
		cls = "valid-prefix"
	} else {
		b = h.UniformBytes(t, n, "b")
	}
	return c10AnyLenCase{In: b, Cls: cls}
}

func c10CheckAnyLen(c c10AnyLenCase) h.Result {
	r := h.NewR().Class(c.Cls).NT(len(c.In) != 32)
	c10CheckLenBytes(r, append([]byte(nil), c.In...))
	return r.Result()
}

func TestC10AnyLen(t *testing.T) { h.Run(t, c10GenAnyLen, c10CheckAnyLen) }

// ------------------------------------------------ Montgomery -> Edwards map

type c10MontCase struct {
	U    h.Hex
	Sign uint8
	Cls  string
}

func c10GenMont(t *rapid.T) c10MontCase {
	var u []byte
	cls := ""
	pm1 := new(big.Int).Sub(ref.P, big.NewInt(1))
	switch rapid.IntRange(0, 9).Draw(t, "k") {
	case 0, 1, 2: // u of a constructed curve point
		ps := h.GenPointSpec(t, "p", rapid.Bool().Draw(t, "cheap"))
		u = ref.FEncode(ps.Ref().MontgomeryU())
		cls = "curve:" + ps.Cls
	case 3: // u >= p
		k := rapid.IntRange(0, 18).Draw(t, "k19")
		u = ref.ToLE(new(big.Int).Add(ref.P, big.NewInt(int64(k))), 32)
		cls = "u>=p"
	case 4: // specials
		v := rapid.SampledFrom([]*big.Int{big.NewInt(0), big.NewInt(1), big.NewInt(2), big.NewInt(9), pm1,
			new(big.Int).Sub(ref.P, big.NewInt(2)), new(big.Int).Set(ref.P), new(big.Int).Add(ref.P, big.NewInt(1)),
			new(big.Int).Sub(new(big.Int).Lsh(big.NewInt(1), 255), big.NewInt(1))}).Draw(t, "sp")
		u = ref.ToLE(v, 32)
		cls = "special"
	case 5: // small u
		u = ref.ToLE(big.NewInt(int64(rapid.IntRange(0, 300).Draw(t, "small"))), 32)
		cls = "small"
	case 6: // p - small
		u = ref.ToLE(new(big.Int).Sub(ref.P, big.NewInt(int64(rapid.IntRange(1, 300).Draw(t, "small")))), 32)
		cls = "p-small"
	case 7:
		u, cls = h.Bytes256(t, "u")
		cls = "catalogue:" + cls
	default:
		u = h.UniformBytes(t, 32, "u")
		cls = "uniform"
	}
	if rapid.IntRange(0, 3).Draw(t, "b255") == 0 {
		u[31] ^= 0x80
		cls += "^bit255"
	}
	return c10MontCase{U: u, Sign: uint8(rapid.IntRange(0, 1).Draw(t, "sign")), Cls: cls}
}

func c10CheckMont(c c10MontCase) h.Result {
	r := h.NewR().Class(c.Cls)
	if len(c.U) != 32 || c.Sign > 1 {
		return r.Fail("harness:bad-case", "").Result()
	}
	in := append([]byte(nil), c.U...)
	masked := append([]byte(nil), in...)
	masked[31] &= 0x7f
	raw := ref.FromLE(masked)
	u := ref.FMod(raw)
	isM1 := ref.FAdd(u, big.NewInt(1)).Sign() == 0
	want, ok := ref.FromMontgomeryU(u, c.Sign)
	switch {
	case isM1:
		r.Class("u=-1")
	case !ok:
		r.Class("twist")
	default:
		r.Class("on-curve")
	}
	r.NT(!ok || in[31]&0x80 != 0 || raw.Cmp(ref.P) >= 0 || u.Sign() == 0 || ref.IsSmallOrder(want))

	var mp curve.MontgomeryPoint
	if _, err := mp.SetBytes(in); err != nil {
		return r.Fail("MontgomeryPoint.SetBytes:wrong-length-decision", "err=%v", err).Result()
	}
	r.Eval(1)
	recv := c10Marker()
	ret, err := recv.SetMontgomery(&mp, c.Sign)
	if (err == nil) != ok {
		return r.Fail("EdwardsPoint.SetMontgomery:wrong-decision", "u=%x sign=%d err=%v reference-ok=%v (u=-1:%v)", in, c.Sign, err, ok, isM1).Result()
	}
	if !ok {
		if ret != nil {
			r.Fail("EdwardsPoint.SetMontgomery:non-nil-on-error", "u=%x", in)
		}
		return r.Result()
	}
	if ret != recv {
		r.Fail("EdwardsPoint.SetMontgomery:wrong-return", "u=%x", in)
	}
	got := c10Marshal(recv)
	if !bytes.Equal(got, want.Encode()) {
		r.Fail("EdwardsPoint.SetMontgomery:wrong-point", "u=%x sign=%d got=%x want=%x", in, c.Sign, got, want.Encode())
	}
	sum := curve.NewEdwardsPoint().Add(recv, c10Marker())
	if g2, w2 := c10Marshal(sum), ref.Add(want, ref.Base).Encode(); !bytes.Equal(g2, w2) {
		r.Fail("EdwardsPoint.SetMontgomery:inconsistent-extended-coordinates", "u=%x sign=%d P+B=%x want=%x", in, c.Sign, g2, w2)
	}
	// requested sign (x = 0 has no sign)
	if want.X.Sign() != 0 && got[31]>>7 != c.Sign {
		r.Fail("EdwardsPoint.SetMontgomery:wrong-sign", "u=%x sign=%d got=%x", in, c.Sign, got)
	}
	// round trip back to u mod p
	r.Eval(1)
	var back curve.MontgomeryPoint
	back.SetEdwards(recv)
	if !bytes.Equal(back[:], ref.FEncode(u)) {
		r.Fail("MontgomeryPoint.SetEdwards:roundtrip", "u=%x sign=%d back=%x want=%x", in, c.Sign, back[:], ref.FEncode(u))
	}
	if !bytes.Equal(mp[:], in) {
		r.Fail("EdwardsPoint.SetMontgomery:input-modified", "u=%x", in)
	}
	return r.Result()
}

func TestC10Montgomery(t *testing.T) { h.Run(t, c10GenMont, c10CheckMont) }
