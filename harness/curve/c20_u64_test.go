//go:build verif && (amd64 || arm64 || ppc64le || ppc64 || s390x || force64bit) && !force32bit

package curve

// C20, 64-bit limb backend (same build constraint as constants_u64.go):
// field elements are 5 limbs in radix 2^51.

import (
	"math/big"

	h "verifh"
	ref "verifref"

	"github.com/oasisprotocol/curve25519-voi/internal/field"
)

const c20Backend = "u64"

// c20FEInt returns the integer sum(limb_k * 2^(51k)) (not reduced mod p) and
// whether every limb is below 2^51.  Limbs are read by reflection and, as a
// cross-check of the reader, through the documented UnsafeInner accessor.
func c20FEInt(e *field.Element) (*big.Int, bool) {
	l := h.C20Limbs(e)
	if len(l) != 5 {
		panic("c20: u64 backend must have 5 limbs")
	}
	for k, v := range e.UnsafeInner() {
		if v != l[k] {
			panic("c20: reflection reader disagrees with UnsafeInner")
		}
	}
	return ref.C20Radix51(l), ref.C20LimbsCanonical(l)
}
