//go:build verif

package curve

// C20 — precomputed constants and tables equal their definitions.
//
// Exhaustive enumeration: one case = one constant or one table entry in one
// encoding.  The value path never uses library arithmetic: raw limbs are read
// (reflection / direct field access) and converted with the radix formula
// (c20FEInt, per backend), then compared with verifref definitions computed
// from first principles.
//
// Coverage of package-level vars/consts of package curve (anchored files):
//   constants.go        CompressedPointSize, MontgomeryPointSize,
//                       RistrettoUniformSize (sizes: checked, trivial),
//                       ED25519_BASEPOINT_COMPRESSED, X25519_BASEPOINT,
//                       RISTRETTO_BASEPOINT_COMPRESSED, RISTRETTO_BASEPOINT_POINT,
//                       RISTRETTO_BASEPOINT_TABLE                  -> TestC20CurveConstants
//   constants_tables.go ED25519_BASEPOINT_TABLE, edwardsBasepointTableInnerDocHidden
//                                                                 -> TestC20CurveConstants (aliasing/shape)
//                       packedEdwardsBasepointTable (256), unpacked form -> TestC20FixedBaseTable
//                       packedAffineOddMultiplesOfBasepoint, packedAffineOddMultiplesOfBShl128,
//                       constAFFINE_ODD_MULTIPLES_OF_BASEPOINT, constAFFINE_ODD_MULTIPLES_OF_B_SHL_128
//                                                                 -> TestC20OddMultiples
//   constants_u64.go / constants_u32.go
//                       ED25519_BASEPOINT_POINT, constMINUS_ONE, constEDWARDS_D, constEDWARDS_D2,
//                       constONE_MINUS_EDWARDS_D_SQUARED, constEDWARDS_D_MINUS_ONE_SQUARED,
//                       constSQRT_AD_MINUS_ONE, constINVSQRT_A_MINUS_D, constB_SHL_128
//                                                                 -> TestC20CurveConstants
//                       EIGHT_TORSION, eightTorsionInnerDocHidden -> TestC20Torsion
//   edwards_vector_amd64.go
//                       supportsVectorizedEdwards (CPU feature flag, recorded as extra, not a constant),
//                       constEXTENDEDPOINT_IDENTITY, constVECTOR_ODD_MULTIPLES_OF_BASEPOINT,
//                       constVECTOR_ODD_MULTIPLES_OF_B_SHL_128, ED25519_BASEPOINT_TABLE.innerVector
//                                                                 -> TestC20VectorTables (c20_vector_amd64_test.go)
//   edwards_vector_generic.go
//                       supportsVectorizedEdwards = false, nil vector tables, zero identity -> TestC20CurveConstants
//                       errVectorNotSupported (error value, no mathematical content: not checked)
//   edwards.go (not anchored, but an embedded table) noncanonicalSignBits -> TestC20CurveConstants
//   edwards.go mulPippengerThreshold (tuning parameter, no defining value), err* values: not checked.
// Every table is additionally read back through its Lookup method:
// TestC20LookupAll (exhaustive) and TestC20LookupRandom (rapid).

import (
	"bytes"
	"math/big"
	"sync"
	"testing"

	"pgregory.net/rapid"
	h "verifh"
	ref "verifref"

	"github.com/oasisprotocol/curve25519-voi/internal/field"
)

// c20Case identifies one constant / one table entry (self-contained: the
// check function looks the object up by name).
type c20Case struct {
	Name string // constant or table (+ packed/generic/vector form) name
	Enc  string // limb encoding of the build that enumerated the case (u64 / u32): part of the case identity
	I, J int    // table indices (0 when unused)
}

func c20eq(a, b *big.Int) bool { return ref.FMod(a).Cmp(ref.FMod(b)) == 0 }

// c20fe compares one field-element constant with its definition (mod p).
func c20fe(r *h.R, sig string, e *field.Element, want *big.Int) {
	r.Eval(1)
	v, canon := c20FEInt(e)
	if !canon {
		r.Class("limbs-not-canonical")
	}
	if !c20eq(v, want) {
		r.Fail(sig+":wrong-value", "limbs=%v value=%v want=%v", h.C20Limbs(e), ref.FMod(v), ref.FMod(want))
	}
}

// c20affine converts an EdwardsPoint's raw limbs to an affine reference
// point.  ok=false when Z = 0; tOK reports T*Z == X*Y.
func c20affine(p *EdwardsPoint) (q ref.Point, ok, tOK bool) {
	X, _ := c20FEInt(&p.inner.X)
	Y, _ := c20FEInt(&p.inner.Y)
	Z, _ := c20FEInt(&p.inner.Z)
	T, _ := c20FEInt(&p.inner.T)
	if ref.FMod(Z).Sign() == 0 {
		return ref.Point{}, false, false
	}
	zi := ref.FInv(Z)
	q = ref.Point{X: ref.FMul(X, zi), Y: ref.FMul(Y, zi)}
	return q, true, c20eq(ref.FMul(T, Z), ref.FMul(X, Y))
}

func c20point(r *h.R, sig string, p *EdwardsPoint, want ref.Point) {
	r.Eval(1)
	q, ok, tOK := c20affine(p)
	switch {
	case !ok:
		r.Fail(sig+":z-is-zero", "")
	case !q.OnCurve():
		r.Fail(sig+":not-on-curve", "x=%v y=%v", q.X, q.Y)
	case !q.Equal(want):
		r.Fail(sig+":wrong-point", "got (%v, %v) want (%v, %v)", q.X, q.Y, want.X, want.Y)
	case !tOK:
		r.Fail(sig+":t-inconsistent", "T*Z != X*Y")
	}
}

// c20niels compares an unpacked affine Niels entry with (y+x, y-x, 2dxy) of want.
func c20niels(r *h.R, sig string, ap *affineNielsPoint, want ref.Point) {
	yp, ym, t2d := ref.C20AffineNiels(want)
	r.Eval(1)
	a, c1 := c20FEInt(&ap.y_plus_x)
	b, c2 := c20FEInt(&ap.y_minus_x)
	c, c3 := c20FEInt(&ap.xy2d)
	if !(c1 && c2 && c3) {
		r.Class("limbs-not-canonical")
	}
	switch {
	case !c20eq(a, yp):
		r.Fail(sig+":wrong-y_plus_x", "got %v want %v", ref.FMod(a), yp)
	case !c20eq(b, ym):
		r.Fail(sig+":wrong-y_minus_x", "got %v want %v", ref.FMod(b), ym)
	case !c20eq(c, t2d):
		r.Fail(sig+":wrong-xy2d", "got %v want %v", ref.FMod(c), t2d)
	}
}

// c20packed compares a packed 96-byte entry (three 32-byte little-endian
// integers) with the canonical encodings of (y+x, y-x, 2dxy) of want.
func c20packed(r *h.R, sig string, raw *[96]uint8, want ref.Point) {
	yp, ym, t2d := ref.C20AffineNiels(want)
	r.Eval(1)
	for k, w := range []*big.Int{yp, ym, t2d} {
		got := ref.C20RadixW(h.C20Limbs(raw[32*k:32*k+32]), 8)
		if got.Cmp(w) != 0 {
			r.Fail(sig+":wrong-packed-coordinate", "coordinate %d: got %x want %x", k, got, w)
			return
		}
	}
}

// ------------------------------------------------------------- constants

var c20ConstNames = []string{
	"CompressedPointSize", "MontgomeryPointSize", "RistrettoUniformSize",
	"ED25519_BASEPOINT_COMPRESSED", "X25519_BASEPOINT", "RISTRETTO_BASEPOINT_COMPRESSED",
	"RISTRETTO_BASEPOINT_POINT", "RISTRETTO_BASEPOINT_TABLE", "ED25519_BASEPOINT_TABLE",
	"ED25519_BASEPOINT_POINT", "constMINUS_ONE", "constEDWARDS_D", "constEDWARDS_D2",
	"constONE_MINUS_EDWARDS_D_SQUARED", "constEDWARDS_D_MINUS_ONE_SQUARED",
	"constSQRT_AD_MINUS_ONE", "constINVSQRT_A_MINUS_D", "constB_SHL_128",
	"noncanonicalSignBits", "table-shapes", "vector-constants",
}

func c20CheckConst(c c20Case) h.Result {
	r := h.NewR().Class(c20Backend, c.Name)
	sig := "curve." + c.Name
	trivial := false
	switch c.Name {
	case "CompressedPointSize":
		trivial = true
		r.Eval(1)
		if CompressedPointSize != 32 {
			r.Fail(sig+":wrong-value", "%d", CompressedPointSize)
		}
	case "MontgomeryPointSize":
		trivial = true
		r.Eval(1)
		if MontgomeryPointSize != 32 {
			r.Fail(sig+":wrong-value", "%d", MontgomeryPointSize)
		}
	case "RistrettoUniformSize":
		trivial = true
		r.Eval(1)
		if RistrettoUniformSize != 64 {
			r.Fail(sig+":wrong-value", "%d", RistrettoUniformSize)
		}
	case "ED25519_BASEPOINT_COMPRESSED":
		r.Eval(1)
		if want := ref.Base.Encode(); !bytes.Equal(ED25519_BASEPOINT_COMPRESSED[:], want) {
			r.Fail(sig+":wrong-value", "got %x want %x", ED25519_BASEPOINT_COMPRESSED[:], want)
		}
	case "X25519_BASEPOINT":
		r.Eval(1)
		// u = (1+y)/(1-y) of the Edwards base point (= 9).
		if want := ref.FEncode(ref.Base.MontgomeryU()); !bytes.Equal(X25519_BASEPOINT[:], want) {
			r.Fail(sig+":wrong-value", "got %x want %x", X25519_BASEPOINT[:], want)
		}
	case "RISTRETTO_BASEPOINT_COMPRESSED":
		r.Eval(1)
		if want := ref.C20RistrettoEncode(ref.Base); !bytes.Equal(RISTRETTO_BASEPOINT_COMPRESSED[:], want) {
			r.Fail(sig+":wrong-value", "got %x want %x", RISTRETTO_BASEPOINT_COMPRESSED[:], want)
		}
	case "RISTRETTO_BASEPOINT_POINT":
		c20point(r, sig, &RISTRETTO_BASEPOINT_POINT.inner, ref.Base)
	case "ED25519_BASEPOINT_POINT":
		c20point(r, sig, ED25519_BASEPOINT_POINT, ref.Base)
	case "RISTRETTO_BASEPOINT_TABLE":
		// A copy of *ED25519_BASEPOINT_TABLE: must share the same tables
		// (whose contents are checked entry by entry elsewhere).
		r.Eval(1)
		if RISTRETTO_BASEPOINT_TABLE.inner.inner != ED25519_BASEPOINT_TABLE.inner ||
			RISTRETTO_BASEPOINT_TABLE.inner.innerVector != ED25519_BASEPOINT_TABLE.innerVector {
			r.Fail(sig+":not-the-ed25519-table", "")
		}
	case "ED25519_BASEPOINT_TABLE":
		r.Eval(1)
		if ED25519_BASEPOINT_TABLE != edwardsBasepointTableInnerDocHidden {
			r.Fail(sig+":alias-broken", "")
		}
		// The table form that edwardsBasepointTableMul dereferences must exist
		// (edwards_vector_amd64.go:init generates the vector form when AVX2 is
		// present; whether the other form is kept is a memory matter and is
		// not asserted).
		tb := ED25519_BASEPOINT_TABLE
		if supportsVectorizedEdwards && tb.innerVector == nil || !supportsVectorizedEdwards && tb.inner == nil {
			r.Fail(sig+":missing-table-form", "avx2=%v vector=%v generic=%v", supportsVectorizedEdwards, tb.innerVector != nil, tb.inner != nil)
		}
	case "constMINUS_ONE":
		c20fe(r, sig, &constMINUS_ONE, ref.C20MinusOne)
	case "constEDWARDS_D":
		c20fe(r, sig, &constEDWARDS_D, ref.D)
	case "constEDWARDS_D2":
		c20fe(r, sig, &constEDWARDS_D2, ref.C20D2)
	case "constONE_MINUS_EDWARDS_D_SQUARED":
		// RFC 9496 ONE_MINUS_D_SQ = 1 - d^2 (used as such by the Ristretto map).
		c20fe(r, sig, &constONE_MINUS_EDWARDS_D_SQUARED, ref.C20OneMinusDSq)
	case "constEDWARDS_D_MINUS_ONE_SQUARED":
		c20fe(r, sig, &constEDWARDS_D_MINUS_ONE_SQUARED, ref.C20DMinusOneSq)
	case "constSQRT_AD_MINUS_ONE":
		// square equals a*d-1, and it is the (odd) root that reproduces RFC 9496.
		v, _ := c20FEInt(&constSQRT_AD_MINUS_ONE)
		r.Eval(1)
		if !c20eq(ref.FSqr(v), ref.C20ADMinusOne) {
			r.Fail(sig+":square-is-not-ad-1", "value=%v", ref.FMod(v))
		}
		c20fe(r, sig, &constSQRT_AD_MINUS_ONE, ref.C20SqrtADMinusOne)
	case "constINVSQRT_A_MINUS_D":
		v, _ := c20FEInt(&constINVSQRT_A_MINUS_D)
		r.Eval(1)
		if !c20eq(ref.FMul(ref.FSqr(v), ref.C20AMinusD), big.NewInt(1)) {
			r.Fail(sig+":square-is-not-1/(a-d)", "value=%v", ref.FMod(v))
		}
		c20fe(r, sig, &constINVSQRT_A_MINUS_D, ref.C20InvSqrtAMinusD)
	case "constB_SHL_128":
		c20point(r, sig, constB_SHL_128, ref.C20BShl128())
	case "noncanonicalSignBits":
		// the two encodings with x = 0 (y = 1, y = -1) and the sign bit set
		r.Eval(1)
		var want [][]byte
		for _, y := range []*big.Int{big.NewInt(1), ref.C20MinusOne} {
			p := ref.Point{X: big.NewInt(0), Y: y}
			if !p.OnCurve() {
				panic("reference: x=0 point not on curve")
			}
			e := p.Encode()
			e[31] |= 0x80
			want = append(want, e)
		}
		if len(noncanonicalSignBits) != 2 {
			r.Fail(sig+":wrong-length", "%d", len(noncanonicalSignBits))
			break
		}
		for i := range want {
			if !bytes.Equal(noncanonicalSignBits[i][:], want[i]) {
				r.Fail(sig+":wrong-value", "entry %d: got %x want %x", i, noncanonicalSignBits[i][:], want[i])
			}
		}
	case "table-shapes":
		r.Eval(1)
		if len(packedEdwardsBasepointTable) != 256 || len(packedAffineOddMultiplesOfBasepoint) != 64 ||
			len(packedAffineOddMultiplesOfBShl128) != 64 {
			r.Fail("curve.packed-tables:wrong-length", "%d %d %d", len(packedEdwardsBasepointTable),
				len(packedAffineOddMultiplesOfBasepoint), len(packedAffineOddMultiplesOfBShl128))
		}
	case "vector-constants":
		c20CheckVectorConsts(r)
	default:
		r.Fail("harness:unknown-case", "%q", c.Name)
	}
	r.NT(!trivial)
	return r.Result()
}

func TestC20CurveConstants(t *testing.T) {
	h.SetExtra(t, "backend", c20Backend)
	h.SetExtra(t, "supportsVectorizedEdwards", map[bool]string{true: "true", false: "false"}[supportsVectorizedEdwards])
	var cases []c20Case
	for _, n := range c20ConstNames {
		cases = append(cases, c20Case{Name: n, Enc: c20Backend})
	}
	h.RunList(t, cases, c20CheckConst)
}

// ---------------------------------------------------------------- torsion

// Case I = 0..7: T[I] on the curve, in E[8], T consistent, == [I]T[1]
// (reference arithmetic on the limb-decoded T[1]); I = 1 additionally: exact
// order 8.  Case I = 8: the eight points are pairwise distinct and form
// exactly E[8] computed from scratch; EIGHT_TORSION aliases the hidden array.
func c20CheckTorsion(c c20Case) h.Result {
	r := h.NewR().Class(c20Backend, "EIGHT_TORSION")
	sig := "curve.EIGHT_TORSION"
	// identity (index 0) is a 0/1 literal
	r.NT(c.I != 0)
	if c.I == 8 {
		r.Eval(1)
		seen := map[int]bool{}
		for i := range EIGHT_TORSION {
			if EIGHT_TORSION[i] != eightTorsionInnerDocHidden[i] {
				r.Fail(sig+":alias-broken", "index %d", i)
			}
			q, ok, _ := c20affine(EIGHT_TORSION[i])
			idx := -1
			if ok {
				idx = ref.TorsionIndex(q)
			}
			if idx < 0 {
				r.Fail(sig+":not-in-E8", "index %d", i)
			} else if seen[idx] {
				r.Fail(sig+":duplicate-point", "index %d", i)
			}
			seen[idx] = true
		}
		if len(seen) != 8 || len(ref.Torsion8()) != 8 {
			r.Fail(sig+":set-is-not-E8", "%d distinct", len(seen))
		}
		return r.Result()
	}
	if c.I < 0 || c.I > 8 {
		return r.Fail("harness:unknown-case", "I=%d", c.I).Result()
	}
	t1, ok, _ := c20affine(EIGHT_TORSION[1])
	if !ok || !t1.OnCurve() {
		return r.Fail(sig+":generator-invalid", "T[1] has Z = 0 or is off the curve").Result()
	}
	c20point(r, sig, EIGHT_TORSION[c.I], ref.Mul(big.NewInt(int64(c.I)), t1))
	r.Eval(1)
	if q, ok, _ := c20affine(EIGHT_TORSION[c.I]); ok && !ref.IsSmallOrder(q) {
		r.Fail(sig+":not-in-E8", "index %d", c.I)
	}
	if c.I == 1 {
		r.Eval(1)
		if ref.Double(ref.Double(t1)).IsIdentity() || !ref.MulByCofactor(t1).IsIdentity() {
			r.Fail(sig+":generator-not-order-8", "")
		}
	}
	return r.Result()
}

func TestC20Torsion(t *testing.T) {
	h.SetExtra(t, "backend", c20Backend)
	var cases []c20Case
	for i := 0; i <= 8; i++ {
		cases = append(cases, c20Case{Name: "EIGHT_TORSION", Enc: c20Backend, I: i})
	}
	h.RunList(t, cases, c20CheckTorsion)
}

// ----------------------------------------------------------------- tables

var (
	c20genericOnce  sync.Once
	c20genericTable *edwardsBasepointTableGeneric
	c20genericLive  bool
)

// c20GenericBaseTable returns the unpacked generic fixed-base table: the live
// one when the build/CPU keeps it, otherwise (AVX2: init() drops it) a fresh
// run of the same init-time unpacking function.
func c20GenericBaseTable() *edwardsBasepointTableGeneric {
	c20genericOnce.Do(func() {
		if tb := edwardsBasepointTableInnerDocHidden.inner; tb != nil {
			c20genericTable, c20genericLive = tb, true
		} else {
			c20genericTable = unpackEdwardsBasepointTable()
		}
	})
	return c20genericTable
}

func c20CheckFixedBase(c c20Case) h.Result {
	r := h.NewR().Class(c20Backend, c.Name).NT(true)
	if c.I < 0 || c.I >= 32 || c.J < 0 || c.J >= 8 {
		return r.Fail("harness:unknown-case", "%+v", c).Result()
	}
	want := ref.C20BaseTablePoint(c.I, c.J)
	switch c.Name {
	case "packedEdwardsBasepointTable":
		if idx := c.I*8 + c.J; idx < len(packedEdwardsBasepointTable) {
			c20packed(r, "curve.packedEdwardsBasepointTable", &packedEdwardsBasepointTable[idx], want)
		} else {
			r.Fail("curve.packedEdwardsBasepointTable:missing-entry", "index %d", idx)
		}
	case "ED25519_BASEPOINT_TABLE/generic":
		c20niels(r, "curve.ED25519_BASEPOINT_TABLE.generic", &c20GenericBaseTable()[c.I][c.J], want)
	default:
		r.Fail("harness:unknown-case", "%q", c.Name)
	}
	return r.Result()
}

func TestC20FixedBaseTable(t *testing.T) {
	h.SetExtra(t, "backend", c20Backend)
	c20GenericBaseTable()
	h.SetExtra(t, "generic-table", map[bool]string{true: "live ED25519_BASEPOINT_TABLE.inner", false: "re-run of unpackEdwardsBasepointTable (init dropped it)"}[c20genericLive])
	var cases []c20Case
	for _, n := range []string{"packedEdwardsBasepointTable", "ED25519_BASEPOINT_TABLE/generic"} {
		for i := 0; i < 32; i++ {
			for j := 0; j < 8; j++ {
				cases = append(cases, c20Case{Name: n, Enc: c20Backend, I: i, J: j})
			}
		}
	}
	h.RunList(t, cases, c20CheckFixedBase)
}

func c20CheckOdd(c c20Case) h.Result {
	r := h.NewR().Class(c20Backend, c.Name).NT(true)
	if c.J < 0 || c.J >= 64 {
		return r.Fail("harness:unknown-case", "%+v", c).Result()
	}
	packedEntry := func(name string, tbl [][96]uint8, shl bool) {
		if c.J < len(tbl) {
			c20packed(r, "curve."+name, &tbl[c.J], ref.C20OddMultiple(shl, c.J))
		} else {
			r.Fail("curve."+name+":missing-entry", "index %d", c.J)
		}
	}
	switch c.Name {
	case "packedAffineOddMultiplesOfBasepoint":
		packedEntry(c.Name, packedAffineOddMultiplesOfBasepoint, false)
	case "packedAffineOddMultiplesOfBShl128":
		packedEntry(c.Name, packedAffineOddMultiplesOfBShl128, true)
	case "constAFFINE_ODD_MULTIPLES_OF_BASEPOINT":
		c20niels(r, "curve."+c.Name, &constAFFINE_ODD_MULTIPLES_OF_BASEPOINT[c.J], ref.C20OddMultiple(false, c.J))
	case "constAFFINE_ODD_MULTIPLES_OF_B_SHL_128":
		c20niels(r, "curve."+c.Name, &constAFFINE_ODD_MULTIPLES_OF_B_SHL_128[c.J], ref.C20OddMultiple(true, c.J))
	default:
		r.Fail("harness:unknown-case", "%q", c.Name)
	}
	return r.Result()
}

func TestC20OddMultiples(t *testing.T) {
	h.SetExtra(t, "backend", c20Backend)
	var cases []c20Case
	for _, n := range []string{"packedAffineOddMultiplesOfBasepoint", "packedAffineOddMultiplesOfBShl128",
		"constAFFINE_ODD_MULTIPLES_OF_BASEPOINT", "constAFFINE_ODD_MULTIPLES_OF_B_SHL_128"} {
		for j := 0; j < 64; j++ {
			cases = append(cases, c20Case{Name: n, Enc: c20Backend, J: j})
		}
	}
	h.RunList(t, cases, c20CheckOdd)
}

// ------------------------------------------------- tables through Lookup

// c20LookupCase: table name, sub-table index I (fixed-base tables only) and
// the digit X handed to Lookup: a signed radix-16 digit in [-8, 8] for the
// fixed-base tables, an odd NAF digit in [1, 127] for the odd-multiple tables.
type c20LookupCase struct {
	Table string
	Enc   string // limb encoding of the build (u64 / u32)
	I, X  int
}

var c20GenericLookupTables = []string{"base/generic", "oddB/generic", "odd128/generic"}

func c20LookupWant(c c20LookupCase) (ref.Point, bool) {
	switch c.Table {
	case "base/generic", "base/vector":
		if c.I < 0 || c.I >= 32 || c.X < -8 || c.X > 8 {
			return ref.Point{}, false
		}
		if c.X == 0 {
			return ref.Identity(), true
		}
		return ref.C20MulBaseShift(int64(c.X), uint(8*c.I)), true
	case "oddB/generic", "oddB/vector", "odd128/generic", "odd128/vector":
		if c.X < 1 || c.X > 127 || c.X%2 == 0 {
			return ref.Point{}, false
		}
		sh := uint(0)
		if c.Table[:6] == "odd128" {
			sh = 128
		}
		return ref.C20MulBaseShift(int64(c.X), sh), true
	}
	return ref.Point{}, false
}

func c20CheckLookup(c c20LookupCase) h.Result {
	r := h.NewR().Class(c20Backend, c.Table)
	want, ok := c20LookupWant(c)
	if !ok {
		return r.Fail("harness:unknown-case", "%+v", c).Result()
	}
	r.NT(c.X != 0)
	if c.X < 0 {
		r.Class("negative-digit")
	} else if c.X == 0 {
		r.Class("zero-digit")
	}
	switch c.Table {
	case "base/generic":
		pt := c20GenericBaseTable()[c.I].Lookup(int8(c.X))
		c20niels(r, "curve.affineNielsPointLookupTable.Lookup", &pt, want)
	case "oddB/generic":
		c20niels(r, "curve.affineNielsPointNafLookupTable.Lookup", constAFFINE_ODD_MULTIPLES_OF_BASEPOINT.Lookup(uint8(c.X)), want)
	case "odd128/generic":
		c20niels(r, "curve.affineNielsPointNafLookupTable.Lookup", constAFFINE_ODD_MULTIPLES_OF_B_SHL_128.Lookup(uint8(c.X)), want)
	default:
		c20CheckVectorLookup(r, c, want)
	}
	return r.Result()
}

func c20LookupDomain(tables []string) []c20LookupCase {
	var cases []c20LookupCase
	for _, tb := range tables {
		if tb[:4] == "base" {
			for i := 0; i < 32; i++ {
				for x := -8; x <= 8; x++ {
					cases = append(cases, c20LookupCase{Table: tb, Enc: c20Backend, I: i, X: x})
				}
			}
		} else {
			for x := 1; x <= 127; x += 2 {
				cases = append(cases, c20LookupCase{Table: tb, Enc: c20Backend, X: x})
			}
		}
	}
	return cases
}

func TestC20LookupAll(t *testing.T) {
	h.SetExtra(t, "backend", c20Backend)
	h.RunList(t, c20LookupDomain(c20LookupTables()), c20CheckLookup)
}

func c20GenLookup(t *rapid.T) c20LookupCase {
	tb := rapid.SampledFrom(c20LookupTables()).Draw(t, "table")
	if tb[:4] == "base" {
		return c20LookupCase{Table: tb, Enc: c20Backend, I: rapid.IntRange(0, 31).Draw(t, "i"), X: rapid.IntRange(-8, 8).Draw(t, "digit")}
	}
	return c20LookupCase{Table: tb, Enc: c20Backend, X: 2*rapid.IntRange(0, 63).Draw(t, "j") + 1}
}

func TestC20LookupRandom(t *testing.T) {
	h.SetExtra(t, "backend", c20Backend)
	h.Run(t, c20GenLookup, c20CheckLookup)
}
