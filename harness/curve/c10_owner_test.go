//go:build verif

package curve_test

// C10 — byte slices returned by the Edwards marshallers belong to the caller,
// and points handed out by table accessors are the caller's too: writing to
// them must not change the object (or the package-level constant) they came
// from.

import (
	"bytes"
	"testing"

	"github.com/oasisprotocol/curve25519-voi/curve"

	"pgregory.net/rapid"
	h "verifh"
	ref "verifref"
)

type c10OwnCase struct {
	P h.PointSpec
}

func c10GenOwn(t *rapid.T) c10OwnCase { return c10OwnCase{P: h.GenPointSpec(t, "p", true)} }

func c10Scribble(b []byte) {
	for i := range b {
		b[i] ^= 0xa5
	}
}

func c10CheckOwn(c c10OwnCase) h.Result {
	r := h.NewR().Class(c.P.Cls).NT(true)
	want := c.P.Enc()
	var cy curve.CompressedEdwardsY
	if _, err := cy.SetBytes(want); err != nil {
		return r.Fail("harness:setbytes", "%v", err).Result()
	}
	r.Eval(5)
	b1, err := cy.MarshalBinary()
	if err != nil || !bytes.Equal(b1, want) {
		return r.Fail("CompressedEdwardsY.MarshalBinary:wrong", "got %x want %x err=%v", b1, want, err).Result()
	}
	c10Scribble(b1)
	if b2, _ := cy.MarshalBinary(); !bytes.Equal(b2, want) || !bytes.Equal(cy[:], want) {
		r.Fail("CompressedEdwardsY.MarshalBinary:returned-slice-aliases-the-receiver", "receiver now %x want %x", cy[:], want)
	}
	p, err := curve.NewEdwardsPoint().SetCompressedY(&cy)
	if err != nil {
		return r.Fail("EdwardsPoint.SetCompressedY:rejected-valid", "%x: %v", want, err).Result()
	}
	b3, _ := p.MarshalBinary()
	c10Scribble(b3)
	if b4, _ := p.MarshalBinary(); !bytes.Equal(b4, want) {
		r.Fail("EdwardsPoint.MarshalBinary:returned-slice-aliases-the-receiver", "got %x want %x", b4, want)
	}
	// package-level constants and table accessors
	baseWant := ref.Base.Encode()
	b5, _ := curve.ED25519_BASEPOINT_COMPRESSED.MarshalBinary()
	c10Scribble(b5)
	b6, _ := curve.ED25519_BASEPOINT_POINT.MarshalBinary()
	c10Scribble(b6)
	acc := curve.ED25519_BASEPOINT_TABLE.Basepoint()
	acc.Add(acc, p) // the point handed out is the caller's to use as a receiver
	racc := curve.RISTRETTO_BASEPOINT_TABLE.Basepoint()
	racc.Add(racc, racc)
	tbl := curve.NewEdwardsBasepointTable(p)
	acc2 := tbl.Basepoint()
	acc2.Add(acc2, acc2)
	if !bytes.Equal(curve.ED25519_BASEPOINT_COMPRESSED[:], baseWant) {
		r.Fail("ED25519_BASEPOINT_COMPRESSED:changed-through-a-marshalled-slice", "now %x", curve.ED25519_BASEPOINT_COMPRESSED[:])
	}
	if b7, _ := curve.ED25519_BASEPOINT_POINT.MarshalBinary(); !bytes.Equal(b7, baseWant) {
		r.Fail("ED25519_BASEPOINT_POINT:changed-by-a-caller-of-an-accessor", "now %x want %x", b7, baseWant)
	}
	if b8, _ := curve.ED25519_BASEPOINT_TABLE.Basepoint().MarshalBinary(); !bytes.Equal(b8, baseWant) {
		r.Fail("ED25519_BASEPOINT_TABLE.Basepoint:changed-by-a-caller-of-the-accessor", "now %x want %x", b8, baseWant)
	}
	if b9, _ := tbl.Basepoint().MarshalBinary(); !bytes.Equal(b9, want) {
		r.Fail("EdwardsBasepointTable.Basepoint:changed-by-a-caller-of-the-accessor", "now %x want %x", b9, want)
	}
	if b10, _ := curve.RISTRETTO_BASEPOINT_POINT.MarshalBinary(); !bytes.Equal(b10, ref.RistEncode(ref.Base)) {
		r.Fail("RISTRETTO_BASEPOINT_POINT:changed-by-a-caller-of-an-accessor", "now %x", b10)
	}
	return r.Result()
}

func TestC10Ownership(t *testing.T) { h.Run(t, c10GenOwn, c10CheckOwn) }
