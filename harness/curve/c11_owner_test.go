//go:build verif

package curve

// C11 — byte slices returned by the marshallers belong to the caller: writing
// to them must not change the object they came from (nor the package-level
// constants), and marshalling again must give the encoding again.

import (
	"bytes"
	"testing"

	"pgregory.net/rapid"
	h "verifh"
	ref "verifref"
)

type c11OwnCase struct {
	P h.PointSpec
}

func c11GenOwn(t *rapid.T) c11OwnCase {
	return c11OwnCase{P: h.GenPointSpec(t, "p", true)}
}

func c11Scribble(b []byte) {
	for i := range b {
		b[i] ^= 0xa5
	}
}

func c11CheckOwn(c c11OwnCase) h.Result {
	r := h.NewR().Class(c.P.Cls).NT(true)
	// representative in 2E: use [2a]B + T[2j'] so that it is a ristretto element
	pr := ref.Double(c.P.Ref())
	want := ref.RistEncode(pr)
	var cr CompressedRistretto
	if _, err := cr.SetBytes(want); err != nil {
		return r.Fail("harness:setbytes", "%v", err).Result()
	}
	r.Eval(4)
	b1, err := cr.MarshalBinary()
	if err != nil || !bytes.Equal(b1, want) {
		return r.Fail("CompressedRistretto.MarshalBinary:wrong", "got %x want %x err=%v", b1, want, err).Result()
	}
	c11Scribble(b1)
	if b2, _ := cr.MarshalBinary(); !bytes.Equal(b2, want) || !bytes.Equal(cr[:], want) {
		r.Fail("CompressedRistretto.MarshalBinary:returned-slice-aliases-the-receiver", "after writing to the returned slice the receiver reads %x, want %x", cr[:], want)
	}
	var p RistrettoPoint
	if _, err := p.SetCompressed(&cr); err != nil {
		return r.Fail("RistrettoPoint.SetCompressed:rejected-valid", "%x: %v", want, err).Result()
	}
	b3, _ := p.MarshalBinary()
	c11Scribble(b3)
	if b4, _ := p.MarshalBinary(); !bytes.Equal(b4, want) {
		r.Fail("RistrettoPoint.MarshalBinary:returned-slice-aliases-the-receiver", "got %x want %x", b4, want)
	}
	// package-level constants
	baseWant := ref.RistEncode(ref.Base)
	b5, _ := RISTRETTO_BASEPOINT_COMPRESSED.MarshalBinary()
	c11Scribble(b5)
	b6, _ := RISTRETTO_BASEPOINT_POINT.MarshalBinary()
	c11Scribble(b6)
	if !bytes.Equal(RISTRETTO_BASEPOINT_COMPRESSED[:], baseWant) {
		r.Fail("RISTRETTO_BASEPOINT_COMPRESSED:changed-through-a-marshalled-slice", "now %x", RISTRETTO_BASEPOINT_COMPRESSED[:])
	}
	if b7, _ := RISTRETTO_BASEPOINT_POINT.MarshalBinary(); !bytes.Equal(b7, baseWant) {
		r.Fail("RISTRETTO_BASEPOINT_POINT:changed-through-a-marshalled-slice", "now %x", b7)
	}
	return r.Result()
}

func TestC11MarshalOwnership(t *testing.T) { h.Run(t, c11GenOwn, c11CheckOwn) }
