//go:build verif && amd64 && !purego && !force32bit

package curve

// C08 layer 2: memory-access set of the assembly table lookups.
//
// The 8-entry table is placed in mmap'ed memory so that entries k..7 (or,
// mirrored, 0..k-1) lie on a PROT_NONE page.  A constant-time lookup reads
// every entry whatever the digit, so it must fault for EVERY digit 0..8 and
// every split k = 1..7; a lookup whose loads depend on the digit does not.
// Exhaustive over (routine, k, mirror, digit).

import (
	"fmt"
	"runtime/debug"
	"syscall"
	"testing"
	"unsafe"

	h "verifh"
)

type c08GuardCase struct {
	Routine string `json:"routine"`
	K       int    `json:"k"`
	Mirror  bool   `json:"mirror"`
	X       int    `json:"digit"`
}

const c08Page = 4096

// c08Place returns a pointer p such that a table of n entries of size sz
// starting at p has its first k entries on an accessible page and the rest on
// an inaccessible one (mirror=false), or the other way round (mirror=true).
func c08Place(sz, k int, mirror bool) (unsafe.Pointer, func(), error) {
	mem, err := syscall.Mmap(-1, 0, 3*c08Page, syscall.PROT_READ|syscall.PROT_WRITE, syscall.MAP_ANON|syscall.MAP_PRIVATE)
	if err != nil {
		return nil, nil, err
	}
	free := func() { _ = syscall.Munmap(mem) }
	base := uintptr(unsafe.Pointer(&mem[0]))
	// boundary between page 0 and page 1
	start := base + c08Page - uintptr(k*sz)
	if 8*sz > c08Page+k*sz {
		free()
		return nil, nil, fmt.Errorf("table does not fit")
	}
	prot := mem[c08Page : 2*c08Page] // entries k.. live here
	if mirror {
		prot = mem[0:c08Page] // entries 0..k-1 live here
	}
	// fill with a valid-looking pattern before protecting
	for i := range mem {
		mem[i] = byte(i*7 + 1)
	}
	if err := syscall.Mprotect(prot, syscall.PROT_NONE); err != nil {
		free()
		return nil, nil, err
	}
	return unsafe.Pointer(start), func() {
		_ = syscall.Mprotect(prot, syscall.PROT_READ|syscall.PROT_WRITE)
		free()
	}, nil
}

func c08Faults(f func()) (faulted bool, other interface{}) {
	old := debug.SetPanicOnFault(true)
	defer debug.SetPanicOnFault(old)
	defer func() {
		if r := recover(); r != nil {
			if e, ok := r.(interface{ Addr() uintptr }); ok {
				_ = e
				faulted = true
				return
			}
			other = r
		}
	}()
	f()
	return false, nil
}

func c08GuardCheck(c c08GuardCase) h.Result {
	r := h.NewR().Class(c.Routine, fmt.Sprintf("k=%d", c.K)).NT(true).Eval(1)
	var sz int
	switch c.Routine {
	case "lookupAffineNiels":
		sz = int(unsafe.Sizeof(affineNielsPoint{}))
	case "lookupCached":
		if !supportsVectorizedEdwards {
			return r.Class("skipped-no-avx2").Result()
		}
		sz = int(unsafe.Sizeof(cachedPoint{}))
	default:
		return r.Fail("harness:unknown-routine", "%s", c.Routine).Result()
	}
	p, free, err := c08Place(sz, c.K, c.Mirror)
	if err != nil {
		return r.Fail("harness:mmap", "%v", err).Result()
	}
	defer free()
	var faulted bool
	var other interface{}
	switch c.Routine {
	case "lookupAffineNiels":
		var out affineNielsPoint
		faulted, other = c08Faults(func() { lookupAffineNiels((*affineNielsPointLookupTable)(p), &out, uint8(c.X)) })
	case "lookupCached":
		var out cachedPoint
		faulted, other = c08Faults(func() { lookupCached((*cachedPointLookupTable)(p), &out, uint8(c.X)) })
	}
	if other != nil {
		return r.Fail("ct:"+c.Routine+":unexpected-panic", "%v", other).Result()
	}
	if !faulted {
		r.Fail("ct:"+c.Routine+":digit-dependent-memory-access", "digit %d did not touch the protected part of the table (split k=%d mirror=%v): the set of table entries read depends on the secret digit", c.X, c.K, c.Mirror)
	}
	return r.Result()
}

func TestC08GuardPages(t *testing.T) {
	var cases []c08GuardCase
	for _, rt := range []string{"lookupAffineNiels", "lookupCached"} {
		for k := 1; k <= 7; k++ {
			for _, m := range []bool{false, true} {
				for x := 0; x <= 8; x++ {
					cases = append(cases, c08GuardCase{rt, k, m, x})
				}
			}
		}
	}
	h.SetExtra(t, "supportsVectorizedEdwards", fmt.Sprint(supportsVectorizedEdwards))
	h.RunList(t, cases, c08GuardCheck)
}

// Self-test of the oracle: a digit-indexed lookup written in Go must be
// flagged (does not fault for digits on the accessible side).
func TestC08GuardPagesOracleSelfTest(t *testing.T) {
	sz := int(unsafe.Sizeof(affineNielsPoint{}))
	p, free, err := c08Place(sz, 4, false)
	if err != nil {
		t.Fatal(err)
	}
	defer free()
	tbl := (*affineNielsPointLookupTable)(p)
	var out affineNielsPoint
	if f, _ := c08Faults(func() { out = tbl[1] }); f {
		t.Fatal("VERIF-HARNESS-ERROR direct index on the accessible side faulted")
	}
	if f, _ := c08Faults(func() { out = tbl[6] }); !f {
		t.Fatal("VERIF-HARNESS-ERROR direct index on the protected side did not fault")
	}
	_ = out
}
