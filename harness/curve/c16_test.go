//go:build verif

package curve

// C16 (second half) — the delta-scaled triple-base multiplication
//
//	R = [delta*a]A + [delta*b]B - [delta]C
//
// lies in the 8-torsion subgroup exactly when [a]A + [b]B - C does, for the
// plain and the precomputed-key variant, generic and vector code, and through
// the Ristretto wrappers (identity test).
//
// Points are built by construction with the reference: A = [alpha]B + T_i,
// C = [a*alpha + b + delta']B + T_j, so the truth of the equation is index
// arithmetic: it holds up to torsion iff delta' = 0 (mod L).  They enter the
// library through its decoder from the reference's encoding.

import (
	"fmt"
	"math/big"
	"testing"
	"time"

	"pgregory.net/rapid"
	h "verifh"
	ref "verifref"

	"github.com/oasisprotocol/curve25519-voi/curve/scalar"
)

// c16EqBudget bounds one triple multiplication (normally ~100 microseconds) in
// CPU time consumed by the process, so machine load cannot trip it.
const c16EqBudget = 30 * time.Second

type c16EqCase struct {
	A     h.PointSpec // A = [A.A]B + T[A.J]
	Sa    h.Hex       // scalar a (32 bytes, < 2^255, possibly unreduced)
	Sb    h.Hex       // scalar b
	Delta h.Hex       // C = [a*alpha + b + Delta]B + T[Jc]; equation true iff Delta = 0 mod L
	Jc    int
	ACls  string
	BCls  string
	DCls  string
}

func c16GenEq(t *rapid.T) c16EqCase {
	var c c16EqCase
	c.A = h.GenPointSpec(t, "A", false)
	c.Sa, c.ACls = h.C16Scalar(t, "a")
	c.Sb, c.BCls = h.Scalar255(t, "b")
	if rapid.IntRange(0, 5).Draw(t, "eng") == 0 {
		// (a, b) engineered so that the 128-bit split of delta*b is extreme
		var cls string
		c.Sa, c.Sb, cls = h.C16EngineeredAB(t, "eng")
		c.ACls, c.BCls = "eng-short-vector", "eng:"+cls
	}
	c.Jc = rapid.IntRange(0, 7).Draw(t, "jc")
	if rapid.IntRange(0, 2).Draw(t, "jc0") == 0 {
		c.Jc = 0
	}
	switch rapid.IntRange(0, 9).Draw(t, "dk") {
	case 0, 1, 2, 3: // true equation
		c.Delta, c.DCls = make([]byte, 32), "true"
		if rapid.IntRange(0, 7).Draw(t, "dL") == 0 {
			// a multiple of L is still "true"
			c.Delta = ref.ToLE(new(big.Int).Mul(ref.L, big.NewInt(int64(rapid.IntRange(1, 7).Draw(t, "dm")))), 32)
			c.DCls = "true(mL)"
		}
	case 4: // off by a tiny multiple of B
		d := big.NewInt(int64(rapid.SampledFrom([]int{1, 2, 3, 4, 8, 16, 255, 256}).Draw(t, "ds")))
		if rapid.Bool().Draw(t, "dneg") {
			d = ref.SNeg(d)
		}
		c.Delta, c.DCls = ref.ToLE(d, 32), "false:tiny"
	case 5: // off by a power of two (incl. 2^127, 2^128: the e_0 / e_1 split)
		i := uint(rapid.IntRange(0, 252).Draw(t, "di"))
		if rapid.Bool().Draw(t, "d128") {
			i = rapid.SampledFrom([]uint{120, 126, 127, 128, 129, 136, 248, 251, 252}).Draw(t, "dj")
		}
		d := ref.SMod(new(big.Int).Lsh(big.NewInt(1), i))
		if rapid.Bool().Draw(t, "dneg") {
			d = ref.SNeg(d)
		}
		c.Delta, c.DCls = ref.ToLE(d, 32), "false:2^i"
	case 6: // L +- e, unreduced
		e := int64(rapid.SampledFrom([]int{-2, -1, 1, 2}).Draw(t, "de"))
		c.Delta, c.DCls = ref.ToLE(new(big.Int).Add(ref.L, big.NewInt(e)), 32), "false:L+e"
	default:
		d, _ := h.ReducedScalar(t, "d")
		if ref.FromLE(d).Sign() == 0 {
			d[0] = 1
		}
		c.Delta, c.DCls = d, "false:any"
	}
	return c
}

func c16Load(enc []byte) (*EdwardsPoint, bool) {
	var cy CompressedEdwardsY
	copy(cy[:], enc)
	var p EdwardsPoint
	if _, err := p.SetCompressedY(&cy); err != nil {
		return nil, false
	}
	return &p, true
}

func c16Enc(p *EdwardsPoint) []byte {
	var cy CompressedEdwardsY
	cy.SetEdwardsPoint(p)
	return append([]byte(nil), cy[:]...)
}

func c16CheckEq(c c16EqCase) h.Result {
	r := h.NewR().Class("A:"+c.A.Cls, "a:"+c.ACls, "b:"+c.BCls, c.DCls)
	if len(c.Sa) != 32 || len(c.Sb) != 32 || len(c.Delta) != 32 || c.Sa[31]&0x80 != 0 || c.Sb[31]&0x80 != 0 || len(c.A.A) > 32 {
		return r.Class("malformed-case").Result()
	}
	av, bv, dv := ref.FromLE(c.Sa), ref.FromLE(c.Sb), ref.FromLE(c.Delta)
	alpha := ref.FromLE(c.A.A)
	truth := ref.SMod(dv).Sign() == 0
	jA, jC := ((c.A.J%8)+8)%8, ((c.Jc%8)+8)%8
	if truth {
		r.Class("equation-true")
	} else {
		r.Class("equation-false")
	}
	unreduced := av.Cmp(ref.L) >= 0 || bv.Cmp(ref.L) >= 0
	r.NT(h.C16Structured(c.ACls) || unreduced || jA != 0 || jC != 0)

	// Reference construction.
	refA := c.A.Ref()
	gamma := ref.SAdd(ref.SAdd(ref.SMul(av, alpha), bv), dv)
	refC := h.PointSpec{A: ref.ToLE(gamma, 32), J: jC}.Ref()
	// Cross-check of the index arithmetic by one independent affine evaluation
	// of [a]A + [b]B - C: it must be small-order exactly when "truth" says so.
	// (On a deterministic eighth of the cases: it doubles the reference cost.)
	if c.Sa[0]&7 == 0 {
		r.Class("oracle-cross-checked")
		lhs := ref.Sub(ref.Add(ref.Mul(av, refA), ref.MulBase(bv)), refC)
		if ref.IsSmallOrder(lhs) != truth {
			// A disagreement between the two oracle computations is a harness
			// defect, never a finding about the library.
			fmt.Printf("VERIF-HARNESS-ERROR c16 oracle inconsistent: a=%x alpha=%x jA=%d b=%x delta=%x jC=%d\n", []byte(c.Sa), []byte(c.A.A), jA, []byte(c.Sb), []byte(c.Delta), jC)
			return r.Class("oracle-inconsistent").Result()
		}
	}

	A, okA := c16Load(refA.Encode())
	C, okC := c16Load(refC.Encode())
	if !okA || !okC {
		return r.Fail("EdwardsPoint.SetCompressedY:rejected-valid-encoding", "A=%x C=%x", refA.Encode(), refC.Encode()).Result()
	}
	a, err1 := scalar.NewFromBits(c.Sa)
	b, err2 := scalar.NewFromBits(c.Sb)
	if err1 != nil || err2 != nil {
		return r.Class("malformed-case").Result()
	}
	// Loaded points have Z = 1 and T = XY.  The entry points take arbitrary
	// projective representatives, and the table builders, the negation of C and
	// the precomputed form all consume Z: in three quarters of the cases the
	// operands are replaced by the same points in another representation,
	// (P + Q) - Q with a case-dependent Q.
	if rr := int(c.Sb[1]) % 4; rr != 0 {
		qs, err := scalar.NewFromBytesModOrderWide(h.Expand(uint64(c.Sb[2])<<8|uint64(c.Sa[3]), 64))
		if err != nil {
			panic(err)
		}
		var Q EdwardsPoint
		Q.MulBasepoint(ED25519_BASEPOINT_TABLE, qs)
		want := [2][]byte{c16Enc(A), c16Enc(C)}
		if rr&1 != 0 {
			A.Add(A, &Q)
			A.Sub(A, &Q)
		}
		if rr&2 != 0 {
			C.Add(C, &Q)
			C.Sub(C, &Q)
		}
		r.Class("operands:re-represented(Z!=1)")
		if string(c16Enc(A)) != string(want[0]) || string(c16Enc(C)) != string(want[1]) {
			return r.Fail("EdwardsPoint.Add/Sub:re-representation-changed-the-point", "A=%x C=%x", want[0], want[1]).Result()
		}
	}
	encA, encC := c16Enc(A), c16Enc(C)

	judge := func(name string, res *EdwardsPoint) {
		r.Eval(1)
		got := res.IsSmallOrder()
		// independent reading of the same result: decode its encoding with the reference
		di := ref.Decode(c16Enc(res))
		if !di.OK {
			r.Fail(name+":result-not-on-curve", "a=%x A=%x b=%x C=%x result=%x", []byte(c.Sa), encA, []byte(c.Sb), encC, c16Enc(res))
			return
		}
		gotRef := ref.IsSmallOrder(di.P)
		switch {
		case truth && (!got || !gotRef):
			r.Fail(name+":true-equation-rejected", "a=%x A=%x b=%x C=%x result=%x IsSmallOrder=%v ref=%v", []byte(c.Sa), encA, []byte(c.Sb), encC, c16Enc(res), got, gotRef)
		case !truth && (got || gotRef):
			r.Fail(name+":false-equation-accepted", "a=%x A=%x b=%x C=%x delta=%x result=%x IsSmallOrder=%v ref=%v", []byte(c.Sa), encA, []byte(c.Sb), encC, []byte(c.Delta), c16Enc(res), got, gotRef)
		}
	}
	unchanged := func(name string) {
		var ab, bb [32]byte
		_ = a.ToBytes(ab[:])
		_ = b.ToBytes(bb[:])
		if string(ab[:]) != string(c.Sa) || string(bb[:]) != string(c.Sb) || string(c16Enc(A)) != string(encA) || string(c16Enc(C)) != string(encC) {
			r.Fail(name+":modified-operand", "a=%x b=%x", []byte(c.Sa), []byte(c.Sb))
		}
	}

	var res EdwardsPoint
	// 1. public entry points (dispatch to vector or generic code).  The first
	// call runs under a watchdog: the embedded lattice reduction is the only
	// unbounded loop, it depends on `a` alone, so if this call returns the
	// later ones (same a) do too.
	if !h.Returns(c16EqBudget, func() { res.TripleScalarMulBasepointVartime(a, A, b, C) }) {
		return r.Fail("EdwardsPoint.TripleScalarMulBasepointVartime:does-not-terminate", "a=%x A=%x b=%x C=%x (no result after %v of CPU time)", []byte(c.Sa), encA, []byte(c.Sb), encC, c16EqBudget).Result()
	}
	judge("EdwardsPoint.TripleScalarMulBasepointVartime", &res)
	unchanged("EdwardsPoint.TripleScalarMulBasepointVartime")
	expA := NewExpandedEdwardsPoint(A)
	res = EdwardsPoint{}
	judge("EdwardsPoint.ExpandedTripleScalarMulBasepointVartime", res.ExpandedTripleScalarMulBasepointVartime(a, expA, b, C))
	unchanged("EdwardsPoint.ExpandedTripleScalarMulBasepointVartime")

	// 1b. the receiver is one of the operands (as for every operation of this API)
	al := NewEdwardsPoint().Set(A)
	judge("EdwardsPoint.TripleScalarMulBasepointVartime(receiver-is-A)", al.TripleScalarMulBasepointVartime(a, al, b, C))
	al = NewEdwardsPoint().Set(C)
	judge("EdwardsPoint.TripleScalarMulBasepointVartime(receiver-is-C)", al.TripleScalarMulBasepointVartime(a, A, b, al))
	al = NewEdwardsPoint().Set(C)
	judge("EdwardsPoint.ExpandedTripleScalarMulBasepointVartime(receiver-is-C)", al.ExpandedTripleScalarMulBasepointVartime(a, expA, b, al))
	// 1b'. A and C are the SAME object: [a]A + [b']B - A is small-order exactly
	// when (a-1)*alpha + b' = 0 mod L; b' is chosen so that this is the case's
	// truth again (b' = delta - (a-1)*alpha).
	{
		b2v := ref.SSub(ref.SMod(dv), ref.SMul(ref.SSub(ref.SMod(av), big.NewInt(1)), alpha))
		b2, err := scalar.NewFromBits(ref.ToLE(b2v, 32))
		if err != nil {
			panic(err)
		}
		same := func(name string, res *EdwardsPoint) {
			r.Eval(1)
			di := ref.Decode(c16Enc(res))
			if !di.OK {
				r.Fail(name+":result-not-on-curve", "a=%x A=C=%x b=%x", []byte(c.Sa), encA, ref.ToLE(b2v, 32))
				return
			}
			if got, gotRef := res.IsSmallOrder(), ref.IsSmallOrder(di.P); got != truth || gotRef != truth {
				r.Fail(name+":wrong-decision", "a=%x A=C=%x (one object) b=%x: equation %v, IsSmallOrder=%v ref=%v", []byte(c.Sa), encA, ref.ToLE(b2v, 32), truth, got, gotRef)
			}
		}
		res = EdwardsPoint{}
		same("EdwardsPoint.TripleScalarMulBasepointVartime(A-and-C-are-one-object)", res.TripleScalarMulBasepointVartime(a, A, b2, A))
		res = EdwardsPoint{}
		same("EdwardsPoint.ExpandedTripleScalarMulBasepointVartime(C-is-the-expanded-point)", res.ExpandedTripleScalarMulBasepointVartime(a, expA, b2, A))
	}
	// 1c. a by-value snapshot of the precomputed key keeps standing for A after
	// the original has been re-set to another point
	expS := NewExpandedEdwardsPoint(A)
	snapA := *expS
	expS.SetEdwardsPoint(ED25519_BASEPOINT_POINT)
	res = EdwardsPoint{}
	judge("EdwardsPoint.ExpandedTripleScalarMulBasepointVartime(value-copy,original-reset)", res.ExpandedTripleScalarMulBasepointVartime(a, &snapA, b, C))
	unchanged("EdwardsPoint.TripleScalarMulBasepointVartime(aliased)")

	// 2. generic code called explicitly (it is what runs without AVX2)
	res = EdwardsPoint{}
	judge("edwardsMulAbglsvPorninVartimeGeneric", edwardsMulAbglsvPorninVartimeGeneric(&res, a, A, b, C))
	alG := NewEdwardsPoint().Set(A)
	judge("edwardsMulAbglsvPorninVartimeGeneric(receiver-is-A)", edwardsMulAbglsvPorninVartimeGeneric(alG, a, alG, b, C))
	tblG := newProjectiveNielsPointNafLookupTable(A)
	expG := &ExpandedEdwardsPoint{inner: &tblG}
	expG.point.Set(A)
	res = EdwardsPoint{}
	judge("expandedEdwardsMulAbglsvPorninVartimeGeneric", expandedEdwardsMulAbglsvPorninVartimeGeneric(&res, a, expG, b, C))

	// 3. vector code called explicitly where the CPU/backend has it
	if supportsVectorizedEdwards {
		r.Class("vector")
		res = EdwardsPoint{}
		judge("edwardsMulAbglsvPorninVartimeVector", edwardsMulAbglsvPorninVartimeVector(&res, a, A, b, C))
		alV := NewEdwardsPoint().Set(A)
		judge("edwardsMulAbglsvPorninVartimeVector(receiver-is-A)", edwardsMulAbglsvPorninVartimeVector(alV, a, alV, b, C))
		tblV := newCachedPointNafLookupTable(A)
		expV := &ExpandedEdwardsPoint{innerVector: &tblV}
		expV.point.Set(A)
		res = EdwardsPoint{}
		judge("expandedEdwardsMulAbglsvPorninVartimeVector", expandedEdwardsMulAbglsvPorninVartimeVector(&res, a, expV, b, C))
	}
	unchanged("edwardsMulAbglsvPornin*")

	// 4. Ristretto wrappers: inner representatives must lie in 2E = <B> + E[4]
	//    (even torsion index); equality there is modulo E[4], so the result is
	//    the identity element exactly when the equation holds.
	if jA%2 == 0 && jC%2 == 0 {
		r.Class("ristretto")
		var rA, rC, rRes RistrettoPoint
		rA.inner.Set(A)
		rC.inner.Set(C)
		r.Eval(2)
		if got := rRes.TripleScalarMulBasepointVartime(a, &rA, b, &rC).IsIdentity(); got != truth {
			r.Fail("RistrettoPoint.TripleScalarMulBasepointVartime:wrong-decision", "a=%x A=%x b=%x C=%x truth=%v got=%v", []byte(c.Sa), encA, []byte(c.Sb), encC, truth, got)
		}
		var rAl RistrettoPoint
		rAl.inner.Set(A)
		if got := rAl.TripleScalarMulBasepointVartime(a, &rAl, b, &rC).IsIdentity(); got != truth {
			r.Fail("RistrettoPoint.TripleScalarMulBasepointVartime(receiver-is-A):wrong-decision", "a=%x A=%x b=%x C=%x truth=%v got=%v", []byte(c.Sa), encA, []byte(c.Sb), encC, truth, got)
		}
		expR := NewExpandedRistrettoPoint(&rA)
		var rRes2 RistrettoPoint
		if got := rRes2.ExpandedTripleScalarMulBasepointVartime(a, expR, b, &rC).IsIdentity(); got != truth {
			r.Fail("RistrettoPoint.ExpandedTripleScalarMulBasepointVartime:wrong-decision", "a=%x A=%x b=%x C=%x truth=%v got=%v", []byte(c.Sa), encA, []byte(c.Sb), encC, truth, got)
		}
	}
	return r.Result()
}

func TestC16Equation(t *testing.T) { h.Run(t, c16GenEq, c16CheckEq) }
