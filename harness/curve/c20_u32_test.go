//go:build verif && (386 || arm || mips || mipsle || wasm || mips64le || mips64 || riscv64 || loong64 || force32bit) && !force64bit

package curve

// C20, 32-bit limb backend (same build constraint as constants_u32.go):
// field elements are 10 limbs of alternating 26/25 bits.

import (
	"math/big"

	h "verifh"
	ref "verifref"

	"github.com/oasisprotocol/curve25519-voi/internal/field"
)

const c20Backend = "u32"

// c20FEInt returns the integer sum(limb_k * 2^ceil(25.5k)) (not reduced mod p)
// and whether every limb is below its nominal width (26 / 25 bits).
func c20FEInt(e *field.Element) (*big.Int, bool) {
	l := h.C20Limbs(e)
	if len(l) != 10 {
		panic("c20: u32 backend must have 10 limbs")
	}
	return ref.C20Radix2625(l), ref.C20LimbsCanonical(l)
}
