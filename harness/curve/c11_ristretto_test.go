//go:build verif

package curve

// C11 — ristretto255 is a canonical prime-order group encoding (RFC 9496).
//
// Oracle: verifref (RFC 9496 DECODE / ENCODE / EQUALS / MAP over math/big,
// validated against the RFC vectors) plus a second, purely mathematical
// statement of DECODE (verifh.C11RistDecodeMath); the two are cross-checked
// on every case.  In-package so that an element can be loaded in any of its
// four representatives P + E[4] and in any projective scaling
// (λx : λy : λ : λxy) without going through the decoder under test.

import (
	"encoding/hex"
	"bytes"
	"math/big"
	"testing"
	"testing/iotest"

	"github.com/oasisprotocol/curve25519-voi/curve/scalar"
	"github.com/oasisprotocol/curve25519-voi/internal/field"
	"pgregory.net/rapid"
	h "verifh"
	ref "verifref"
)

// ------------------------------------------------------------------ helpers

func c11FE(v *big.Int) field.Element {
	var e field.Element
	if _, err := e.SetBytes(ref.FEncode(v)); err != nil {
		panic(err)
	}
	return e
}

func c11Big(e *field.Element) *big.Int {
	var b [32]byte
	if err := e.ToBytes(b[:]); err != nil {
		panic(err)
	}
	return ref.FromLE(b[:])
}

// c11Inject loads the affine reference point as (λx : λy : λ : λxy).
func c11Inject(p ref.Point, lambda *big.Int) *RistrettoPoint {
	var q RistrettoPoint
	q.inner.inner.X = c11FE(ref.FMul(p.X, lambda))
	q.inner.inner.Y = c11FE(ref.FMul(p.Y, lambda))
	q.inner.inner.Z = c11FE(lambda)
	q.inner.inner.T = c11FE(ref.FMul(ref.FMul(p.X, p.Y), lambda))
	return &q
}

// c11Affine reads the internal representative back as an affine reference
// point and reports whether it is a well-formed extended point (Z != 0, on
// the curve, T*Z == X*Y).
func c11Affine(p *RistrettoPoint) (ref.Point, string) {
	in := &p.inner.inner
	X, Y, Z, T := c11Big(&in.X), c11Big(&in.Y), c11Big(&in.Z), c11Big(&in.T)
	if Z.Sign() == 0 {
		return ref.Point{}, "Z=0"
	}
	zi := ref.FInv(Z)
	a := ref.Point{X: ref.FMul(X, zi), Y: ref.FMul(Y, zi)}
	if !a.OnCurve() {
		return a, "off-curve"
	}
	if ref.FMul(T, Z).Cmp(ref.FMul(X, Y)) != 0 {
		return a, "T*Z!=X*Y"
	}
	return a, ""
}

func c11Compress(p *RistrettoPoint) []byte {
	var cp CompressedRistretto
	cp.SetRistrettoPoint(p)
	return append([]byte(nil), cp[:]...)
}

func c11Marker() *RistrettoPoint { return c11Inject(ref.Base, big.NewInt(1)) }

var c11Zero32 = make([]byte, 32)

func c11Scalar(b []byte) *scalar.Scalar {
	s, err := scalar.NewFromBits(b)
	if err != nil {
		panic(err)
	}
	return s
}

// c11Rep describes one library value by construction.
type c11Rep struct {
	A   h.Hex // little-endian integer a (any size <= 32 bytes)
	J   int   // the curve point is [a]B + T[J], T = ref.Torsion8(); J even: one of the four representatives of the element [a]B; J odd: a curve point outside 2E (represents no element)
	Lam h.Hex // projective scaling factor, 32 bytes, in [1,p)
	Via int   // construction route, see build
}

const c11ViaCount = 3

func (r c11Rep) a() *big.Int { return ref.FromLE(r.A) }

func (r c11Rep) valid() bool {
	l := ref.FromLE(r.Lam)
	return len(r.A) <= 32 && len(r.Lam) == 32 && r.J >= 0 && r.J < 8 && r.Via >= 0 && r.Via < c11ViaCount &&
		l.Sign() != 0 && l.Cmp(ref.P) < 0
}

// point is the affine Edwards point of the representative.
func (r c11Rep) point() ref.Point {
	p := ref.MulBase(r.a())
	if r.J != 0 {
		p = ref.Add(p, ref.Torsion8()[r.J])
	}
	return p
}

// build constructs the library value for affine point pt (= r.point(), passed
// in so that it is computed once).
func (r c11Rep) build(pt ref.Point) *RistrettoPoint {
	lam := ref.FromLE(r.Lam)
	switch r.Via {
	case 0: // coordinates scaled by the reference
		return c11Inject(pt, lam)
	case 1: // affine, then every coordinate multiplied by λ with the library's field.Mul
		q := c11Inject(pt, big.NewInt(1))
		l := c11FE(lam)
		in := &q.inner.inner
		in.X.Mul(&in.X, &l)
		in.Y.Mul(&in.Y, &l)
		in.Z.Mul(&in.Z, &l)
		in.T.Mul(&in.T, &l)
		return q
	default: // ([a]B) + (λ-scaled T[J]) through the library's Add: a "natural" projective representative
		base := ref.MulBase(r.a())
		var s RistrettoPoint
		s.Add(c11Inject(base, big.NewInt(1)), c11Inject(ref.Torsion8()[r.J], lam))
		return &s
	}
}

func c11GenA(t *rapid.T, label string) ([]byte, string) {
	switch rapid.IntRange(0, 7).Draw(t, label+"_ak") {
	case 0:
		return []byte{0}, "a=0"
	case 1:
		return ref.ToLE(big.NewInt(int64(rapid.IntRange(1, 16).Draw(t, label+"_tiny"))), 1), "a:tiny"
	case 2, 3, 4:
		return ref.ToLE(big.NewInt(int64(rapid.Uint32Range(17, 1<<20).Draw(t, label+"_small"))), 4), "a:small"
	case 5:
		v := new(big.Int).Sub(ref.L, big.NewInt(int64(rapid.IntRange(1, 16).Draw(t, label+"_neg"))))
		return ref.ToLE(v, 32), "a:L-tiny"
	default:
		b, c := h.ReducedScalar(t, label)
		return b, "a:" + c
	}
}

func c11GenRep(t *rapid.T, label string, a []byte) c11Rep {
	return c11Rep{A: a, J: 2 * rapid.IntRange(0, 3).Draw(t, label+"_j"), Lam: h.C11GenLambda(t, label),
		Via: rapid.IntRange(0, c11ViaCount-1).Draw(t, label+"_via")}
}

// ----------------------------------------------------------- decoding (32 B)

type c11DecCase struct {
	In  h.Hex
	Cls string
	K   int   // which representative (0..3) of the decoded element Equal is tried against
	Lam h.Hex // its scaling
}

func c11GenDec(t *rapid.T) c11DecCase {
	b, cls := h.C11GenRistString(t, "in")
	return c11DecCase{In: b, Cls: cls, K: rapid.IntRange(0, 3).Draw(t, "k"), Lam: h.C11GenLambda(t, "lam")}
}

func c11CheckDec(c c11DecCase) h.Result {
	r := h.NewR().Class(c.Cls)
	lam := ref.FromLE(c.Lam)
	if len(c.In) != 32 || c.K < 0 || c.K > 3 || len(c.Lam) != 32 || lam.Sign() == 0 || lam.Cmp(ref.P) >= 0 {
		return r.Fail("harness:bad-case", "").Result()
	}
	in := append([]byte(nil), c.In...)
	outcome, pm := h.C11RistDecodeMath(in)
	pr, ok := ref.RistDecode(in)
	if (outcome == h.C11OK) != ok || (ok && !pm.Equal(pr)) {
		return r.Fail("harness:oracle-disagreement", "in=%x math=%s rfc=%v", in, outcome, ok).Result()
	}
	if ok && !bytes.Equal(ref.RistEncode(pr), in) {
		return r.Fail("harness:oracle-disagreement", "in=%x reference does not round-trip", in).Result()
	}
	r.Class("outcome:" + outcome)
	r.NT(!ok)

	// CompressedRistretto.SetBytes: raw copy
	r.Eval(1)
	var cp CompressedRistretto
	if ret, err := cp.SetBytes(in); err != nil || ret != &cp || !bytes.Equal(cp[:], in) {
		return r.Fail("CompressedRistretto.SetBytes:wrong", "in=%x err=%v", in, err).Result()
	}

	// RistrettoPoint.SetCompressed
	r.Eval(1)
	recv := c11Marker()
	ret, err := recv.SetCompressed(&cp)
	switch {
	case (err == nil) != ok:
		r.Fail("RistrettoPoint.SetCompressed:wrong-decision", "in=%x err=%v reference-accepts=%v (%s)", in, err, ok, outcome)
	case !ok:
		if ret != nil {
			r.Fail("RistrettoPoint.SetCompressed:non-nil-on-error", "in=%x", in)
		}
	default:
		if ret != recv {
			r.Fail("RistrettoPoint.SetCompressed:wrong-return", "in=%x", in)
		}
		// the stored representative is a well-formed point of the decoded element's coset
		if aff, bad := c11Affine(recv); bad != "" {
			r.Fail("RistrettoPoint.SetCompressed:malformed-point", "in=%x %s", in, bad)
		} else if !ref.RistEqual(aff, pr) {
			r.Fail("RistrettoPoint.SetCompressed:wrong-element", "in=%x got=(%x,%x)", in, ref.FEncode(aff.X), ref.FEncode(aff.Y))
		}
		// re-encoding returns the input
		r.Eval(2)
		if got := c11Compress(recv); !bytes.Equal(got, in) {
			r.Fail("CompressedRistretto.SetRistrettoPoint:roundtrip-not-identity", "in=%x out=%x", in, got)
		}
		if got, err := recv.MarshalBinary(); err != nil || !bytes.Equal(got, in) {
			r.Fail("RistrettoPoint.MarshalBinary:roundtrip-not-identity", "in=%x out=%x err=%v", in, got, err)
		}
		// equal to any other representative of the element
		r.Eval(1)
		other := c11Inject(ref.Add(pr, ref.Torsion4()[c.K]), lam)
		if recv.Equal(other) != 1 || other.Equal(recv) != 1 {
			r.Fail("RistrettoPoint.Equal:decoded-vs-representative", "in=%x k=%d lam=%x", in, c.K, []byte(c.Lam))
		}
		// and usable in the group law: decoded + B
		r.Eval(1)
		var sum RistrettoPoint
		sum.Add(recv, c11Marker())
		if got, want := c11Compress(&sum), ref.RistEncode(ref.Add(pr, ref.Base)); !bytes.Equal(got, want) {
			r.Fail("RistrettoPoint.Add:decoded-plus-basepoint", "in=%x got=%x want=%x", in, got, want)
		}
		if (recv.IsIdentity()) != bytes.Equal(in, c11Zero32) {
			r.Fail("RistrettoPoint.IsIdentity:wrong", "in=%x got=%v", in, recv.IsIdentity())
		}
	}

	// RistrettoPoint.UnmarshalBinary
	r.Eval(1)
	recv = c11Marker()
	err = recv.UnmarshalBinary(in)
	switch {
	case (err == nil) != ok:
		r.Fail("RistrettoPoint.UnmarshalBinary:wrong-decision", "in=%x err=%v reference-accepts=%v (%s)", in, err, ok, outcome)
	case ok:
		if got := c11Compress(recv); !bytes.Equal(got, in) {
			r.Fail("RistrettoPoint.UnmarshalBinary:roundtrip-not-identity", "in=%x out=%x", in, got)
		}
	default:
		if !recv.IsIdentity() || !bytes.Equal(c11Compress(recv), c11Zero32) {
			r.Fail("RistrettoPoint.UnmarshalBinary:receiver-not-identity-on-error", "in=%x receiver=%x", in, c11Compress(recv))
		}
	}

	// CompressedRistretto.UnmarshalBinary / MarshalBinary / Equal
	r.Eval(1)
	var cu CompressedRistretto
	copy(cu[:], ref.RistEncode(ref.Base))
	err = cu.UnmarshalBinary(in)
	switch {
	case (err == nil) != ok:
		r.Fail("CompressedRistretto.UnmarshalBinary:wrong-decision", "in=%x err=%v reference-accepts=%v (%s)", in, err, ok, outcome)
	case ok:
		mb, err := cu.MarshalBinary()
		if !bytes.Equal(cu[:], in) || err != nil || !bytes.Equal(mb, in) {
			r.Fail("CompressedRistretto.UnmarshalBinary:wrong-bytes", "in=%x stored=%x marshalled=%x", in, cu[:], mb)
		}
		if cu.Equal(&cp) != 1 {
			r.Fail("CompressedRistretto.Equal:wrong", "a=%x b=%x", cu[:], cp[:])
		}
	default:
		if !bytes.Equal(cu[:], c11Zero32) {
			r.Fail("CompressedRistretto.UnmarshalBinary:receiver-not-identity-on-error", "in=%x receiver=%x", in, cu[:])
		}
	}
	// the same call on a receiver that already holds these 32 bytes (unvalidated): the decision is a function of the
	// string, not of the receiver's history
	r.Eval(1)
	var cs CompressedRistretto
	copy(cs[:], in)
	err = cs.UnmarshalBinary(in)
	switch {
	case (err == nil) != ok:
		r.Fail("CompressedRistretto.UnmarshalBinary(receiver-holds-the-input):wrong-decision", "in=%x err=%v reference-accepts=%v (%s)", in, err, ok, outcome)
	case ok && !bytes.Equal(cs[:], in):
		r.Fail("CompressedRistretto.UnmarshalBinary(receiver-holds-the-input):wrong-bytes", "in=%x stored=%x", in, cs[:])
	case !ok && !bytes.Equal(cs[:], c11Zero32):
		r.Fail("CompressedRistretto.UnmarshalBinary(receiver-holds-the-input):receiver-not-identity-on-error", "in=%x receiver=%x", in, cs[:])
	}
	// byte comparison of compressed forms: differs from a one-bit neighbour
	for i := 0; i < 32; i++ {
		nb := cp
		nb[i] ^= 1 << uint((i+c.K)%8)
		if cp.Equal(&nb) != 0 || nb.Equal(&cp) != 0 {
			r.Fail("CompressedRistretto.Equal:wrong", "a=%x b=%x", cp[:], nb[:])
		}
	}
	if cp.Equal(&cp) != 1 {
		r.Fail("CompressedRistretto.Equal:wrong", "a=b=%x", cp[:])
	}

	if !bytes.Equal(in, c.In) {
		r.Fail("ristretto-decoders:input-modified", "in=%x", []byte(c.In))
	}
	return r.Result()
}

func TestC11Decode(t *testing.T) { h.Run(t, c11GenDec, c11CheckDec) }

// TestC11DecodeList enumerates the finite special classes: the RFC's bad
// encodings and its 16 multiples, every s in [0,64) and (p-64,p), all 19
// strings s+p < 2^255, 2^255-1 downwards, each also with bit 255 set; and s
// = +-sqrt(-1), +-1 and the other values where an intermediate of DECODE
// vanishes.
func TestC11DecodeList(t *testing.T) {
	var cases []c11DecCase
	seen := map[string]bool{}
	one := ref.ToLE(big.NewInt(1), 32)
	add := func(b []byte, cls string) {
		if seen[string(b)] {
			return
		}
		seen[string(b)] = true
		n := len(cases)
		cases = append(cases, c11DecCase{In: append([]byte(nil), b...), Cls: cls, K: n % 4, Lam: one})
	}
	both := func(v *big.Int, cls string) {
		b := ref.ToLE(v, 32)
		add(b, cls)
		b[31] |= 0x80
		add(b, cls+"|bit255")
	}
	unhex := func(s string) []byte {
		var x h.Hex
		if err := x.UnmarshalJSON([]byte(`"` + s + `"`)); err != nil {
			panic(err)
		}
		return x
	}
	for _, s := range h.C11RistBadEncodings {
		add(unhex(s), "list:rfc-bad")
	}
	for _, s := range h.C11RistMultiples {
		both(ref.FromLE(unhex(s)), "list:rfc-multiple")
	}
	for k := int64(0); k < 64; k++ {
		both(big.NewInt(k), "list:small-s")
		both(new(big.Int).Sub(ref.P, big.NewInt(k+1)), "list:p-small")
	}
	for k := int64(0); k < 19; k++ {
		add(ref.ToLE(new(big.Int).Add(ref.P, big.NewInt(k)), 32), "list:s+p")
		b := ref.ToLE(new(big.Int).Add(ref.P, big.NewInt(k)), 32)
		b[31] |= 0x80
		add(b, "list:s+p|bit255")
	}
	// s^2 = -1 (u2 = 0), s^2 = 1 (u1 = 0), and the roots of v = 0 do not exist
	// (v = 0 needs -d to be a square); include +-i, +-1 and their inverses.
	for _, v := range []*big.Int{ref.SqrtM1, ref.FNeg(ref.SqrtM1), big.NewInt(1), ref.FNeg(big.NewInt(1))} {
		both(v, "list:degenerate")
	}
	// low-byte neighbourhood of p with every other byte 0xff: all first bytes
	for b0 := 0; b0 < 256; b0++ {
		b := bytes.Repeat([]byte{0xff}, 32)
		b[0] = byte(b0)
		add(b, "list:ff-prefix")
		b[31] = 0x7f
		add(b, "list:ff-prefix")
	}
	h.RunList(t, cases, c11CheckDec)
}

// ------------------------------------------------------------ wrong lengths

func c11CheckLenBytes(r *h.R, in []byte) {
	n := len(in)
	orig := append([]byte(nil), in...)
	var err error

	// RistrettoPoint.UnmarshalBinary
	r.Eval(1)
	recv := c11Marker()
	if p, v := h.Catch(func() { err = recv.UnmarshalBinary(in) }); p {
		r.Fail("RistrettoPoint.UnmarshalBinary:panic", "len=%d: %v", n, v)
	} else if n != 32 {
		if err == nil {
			r.Fail("RistrettoPoint.UnmarshalBinary:accepted-wrong-length", "len=%d in=%x", n, in)
		}
		if !recv.IsIdentity() || !bytes.Equal(c11Compress(recv), c11Zero32) {
			r.Fail("RistrettoPoint.UnmarshalBinary:receiver-not-identity-on-error", "len=%d receiver=%x", n, c11Compress(recv))
		}
	} else if _, ok := ref.RistDecode(in); ok != (err == nil) {
		r.Fail("RistrettoPoint.UnmarshalBinary:wrong-decision", "in=%x err=%v", in, err)
	}

	// CompressedRistretto.UnmarshalBinary
	r.Eval(1)
	var cu CompressedRistretto
	copy(cu[:], ref.RistEncode(ref.Base))
	if p, v := h.Catch(func() { err = cu.UnmarshalBinary(in) }); p {
		r.Fail("CompressedRistretto.UnmarshalBinary:panic", "len=%d: %v", n, v)
	} else if n != 32 {
		if err == nil {
			r.Fail("CompressedRistretto.UnmarshalBinary:accepted-wrong-length", "len=%d in=%x", n, in)
		}
		if !bytes.Equal(cu[:], c11Zero32) {
			r.Fail("CompressedRistretto.UnmarshalBinary:receiver-not-identity-on-error", "len=%d receiver=%x", n, cu[:])
		}
	} else if _, ok := ref.RistDecode(in); ok != (err == nil) {
		r.Fail("CompressedRistretto.UnmarshalBinary:wrong-decision", "in=%x err=%v", in, err)
	}

	// CompressedRistretto.SetBytes
	r.Eval(1)
	var cs CompressedRistretto
	var ret *CompressedRistretto
	if p, v := h.Catch(func() { ret, err = cs.SetBytes(in) }); p {
		r.Fail("CompressedRistretto.SetBytes:panic", "len=%d: %v", n, v)
	} else if (n != 32) != (err != nil) || (n != 32) != (ret == nil) {
		r.Fail("CompressedRistretto.SetBytes:wrong-length-decision", "len=%d err=%v", n, err)
	} else if n == 32 && !bytes.Equal(cs[:], in) {
		r.Fail("CompressedRistretto.SetBytes:wrong", "in=%x", in)
	}

	// RistrettoPoint.SetUniformBytes: exactly 64 bytes
	r.Eval(1)
	recv = c11Marker()
	var pret *RistrettoPoint
	if p, v := h.Catch(func() { pret, err = recv.SetUniformBytes(in) }); p {
		r.Fail("RistrettoPoint.SetUniformBytes:panic", "len=%d: %v", n, v)
	} else if (n != 64) != (err != nil) || (n != 64) != (pret == nil) {
		r.Fail("RistrettoPoint.SetUniformBytes:wrong-length-decision", "len=%d err=%v", n, err)
	} else if n == 64 {
		if got, want := c11Compress(recv), ref.RistEncode(ref.RistFromUniform(in)); !bytes.Equal(got, want) {
			r.Fail("RistrettoPoint.SetUniformBytes:wrong-element", "in=%x got=%x want=%x", in, got, want)
		}
	}

	// RistrettoPoint.SetRandom: a reader that runs dry before 64 bytes is an error
	r.Eval(1)
	recv = c11Marker()
	if p, v := h.Catch(func() { pret, err = recv.SetRandom(bytes.NewReader(in)) }); p {
		r.Fail("RistrettoPoint.SetRandom:panic", "len=%d: %v", n, v)
	} else if (n < 64) != (err != nil) || (n < 64) != (pret == nil) {
		r.Fail("RistrettoPoint.SetRandom:wrong-decision", "reader-len=%d err=%v", n, err)
	} else if n >= 64 {
		if got, want := c11Compress(recv), ref.RistEncode(ref.RistFromUniform(in[:64])); !bytes.Equal(got, want) {
			r.Fail("RistrettoPoint.SetRandom:wrong-element", "in=%x got=%x want=%x", in[:64], got, want)
		}
	}
	if !bytes.Equal(in, orig) {
		r.Fail("ristretto-decoders:input-modified", "len=%d", n)
	}
}

type c11LenCase struct {
	N    int
	Fill string // "zero", "ff", "base" (cyclic copy of the basepoint encoding), "two"
}

func c11LenBytes(c c11LenCase) []byte {
	b := make([]byte, c.N)
	switch c.Fill {
	case "ff":
		for i := range b {
			b[i] = 0xff
		}
	case "base":
		e := ref.RistEncode(ref.Base)
		for i := range b {
			b[i] = e[i%32]
		}
	case "two":
		if c.N > 0 {
			b[0] = 2
		}
	}
	return b
}

func c11CheckLen(c c11LenCase) h.Result {
	r := h.NewR().Class("len", "fill:"+c.Fill).NT(c.N != 32)
	if c.N < 0 || c.N > 1<<16 {
		return r.Fail("harness:bad-case", "").Result()
	}
	c11CheckLenBytes(r, c11LenBytes(c))
	return r.Result()
}

func TestC11Lengths(t *testing.T) {
	var cases []c11LenCase
	for n := 0; n <= 130; n++ {
		for _, f := range []string{"zero", "ff", "base", "two"} {
			cases = append(cases, c11LenCase{N: n, Fill: f})
		}
	}
	for _, n := range []int{255, 256, 1024, 4096} {
		cases = append(cases, c11LenCase{N: n, Fill: "base"})
	}
	h.RunList(t, cases, c11CheckLen)
}

type c11AnyLenCase struct {
	In  h.Hex
	Cls string
}

func c11GenAnyLen(t *rapid.T) c11AnyLenCase {
	n := h.HostileLen(t, 32, "n")
	if n == 32 {
		n = rapid.SampledFrom([]int{0, 16, 31, 33, 48, 63, 64, 65, 96, 128}).Draw(t, "n2")
	}
	var b []byte
	cls := "random"
	if rapid.Bool().Draw(t, "valid") {
		enc, _ := h.C11GenRistString(t, "enc")
		b = make([]byte, n)
		for i := range b {
			b[i] = enc[i%32]
		}
		if n > 32 && rapid.Bool().Draw(t, "padzero") {
			for i := 32; i < n; i++ {
				b[i] = 0
			}
		}
		cls = "valid-prefix"
	} else {
		b = h.UniformBytes(t, n, "b")
	}
	return c11AnyLenCase{In: b, Cls: cls}
}

func c11CheckAnyLen(c c11AnyLenCase) h.Result {
	r := h.NewR().Class(c.Cls).NT(len(c.In) != 32)
	c11CheckLenBytes(r, append([]byte(nil), c.In...))
	return r.Result()
}

func TestC11AnyLen(t *testing.T) { h.Run(t, c11GenAnyLen, c11CheckAnyLen) }

// --------------------------------- representatives: encoding and equality

type c11CosetCase struct {
	A    h.Hex
	ACls string
	Lam  [4]h.Hex // scaling of the representative [a]B + T4[j]
	Via  [4]int
	Rel  string // how Q was chosen (label only; the expected answer is recomputed)
	Q    c11Rep // the point compared against
}

func c11GenCoset(t *rapid.T) c11CosetCase {
	var c c11CosetCase
	c.A, c.ACls = c11GenA(t, "a")
	for j := 0; j < 4; j++ {
		c.Lam[j] = h.C11GenLambda(t, "lam")
		c.Via[j] = rapid.IntRange(0, c11ViaCount-1).Draw(t, "via")
	}
	a := ref.FromLE(c.A)
	c.Rel = rapid.SampledFrom([]string{"same", "plus-kL", "neg", "plus-1", "minus-1", "double", "odd-torsion", "odd-torsion", "independent", "independent"}).Draw(t, "rel")
	q := c11GenRep(t, "q", nil)
	var b *big.Int
	switch c.Rel {
	case "same":
		b = a
	case "plus-kL": // the same element written with a larger integer
		k := rapid.IntRange(1, 7).Draw(t, "kL")
		b = new(big.Int).Add(ref.SMod(a), new(big.Int).Mul(big.NewInt(int64(k)), ref.L))
	case "neg":
		b = ref.SNeg(a)
	case "plus-1":
		b = ref.SAdd(a, big.NewInt(1))
	case "minus-1":
		b = ref.SSub(a, big.NewInt(1))
	case "double":
		b = ref.SAdd(a, a)
	case "odd-torsion": // same [a]B, shifted by a point of order 8: not a representative of any element
		b = a
		q.J = 2*rapid.IntRange(0, 3).Draw(t, "jodd") + 1
	default:
		bb, _ := c11GenA(t, "b")
		b = ref.FromLE(bb)
	}
	q.A = ref.ToLE(b, 32)
	c.Q = q
	return c
}

func c11CheckCoset(c c11CosetCase) h.Result {
	r := h.NewR().Class(c.ACls, "rel:"+c.Rel).NT(true)
	if len(c.A) > 32 || !c.Q.valid() {
		return r.Fail("harness:bad-case", "").Result()
	}
	a := ref.FromLE(c.A)
	base := ref.MulBase(a)
	want := ref.RistEncode(base)
	isID := ref.SMod(a).Sign() == 0
	if isID != bytes.Equal(want, c11Zero32) {
		return r.Fail("harness:oracle-disagreement", "a=%x identity encoding", []byte(c.A)).Result()
	}

	var reps [4]*RistrettoPoint
	for j := 0; j < 4; j++ {
		rp := c11Rep{A: c.A, J: 2 * j, Lam: c.Lam[j], Via: c.Via[j]}
		if !rp.valid() {
			return r.Fail("harness:bad-case", "").Result()
		}
		pt := ref.Add(base, ref.Torsion8()[2*j])
		if !bytes.Equal(ref.RistEncode(pt), want) {
			return r.Fail("harness:oracle-disagreement", "a=%x j=%d reference encodings of one coset differ", []byte(c.A), j).Result()
		}
		reps[j] = rp.build(pt)
		r.Eval(3)
		if got := c11Compress(reps[j]); !bytes.Equal(got, want) {
			r.Fail("CompressedRistretto.SetRistrettoPoint:representative-dependent", "a=%x T4[%d] lam=%x via=%d got=%x want=%x",
				[]byte(c.A), j, []byte(c.Lam[j]), c.Via[j], got, want)
		}
		if got, err := reps[j].MarshalBinary(); err != nil || !bytes.Equal(got, want) {
			r.Fail("RistrettoPoint.MarshalBinary:representative-dependent", "a=%x T4[%d] lam=%x via=%d got=%x want=%x err=%v",
				[]byte(c.A), j, []byte(c.Lam[j]), c.Via[j], got, want, err)
		}
		if reps[j].IsIdentity() != isID {
			r.Fail("RistrettoPoint.IsIdentity:wrong", "a=%x T4[%d] lam=%x got=%v", []byte(c.A), j, []byte(c.Lam[j]), !isID)
		}
	}
	for i := 0; i < 4; i++ {
		for k := 0; k < 4; k++ {
			r.Eval(1)
			if reps[i].Equal(reps[k]) != 1 {
				r.Fail("RistrettoPoint.Equal:representatives-unequal", "a=%x T4[%d] vs T4[%d] lam=%x,%x", []byte(c.A), i, k, []byte(c.Lam[i]), []byte(c.Lam[k]))
			}
		}
	}
	// the decoder's output belongs to the same element
	r.Eval(1)
	var cp CompressedRistretto
	copy(cp[:], want)
	var dec RistrettoPoint
	if _, err := dec.SetCompressed(&cp); err != nil {
		r.Fail("RistrettoPoint.SetCompressed:rejected-valid-encoding", "enc=%x err=%v", want, err)
	} else {
		for j := 0; j < 4; j++ {
			if dec.Equal(reps[j]) != 1 || reps[j].Equal(&dec) != 1 {
				r.Fail("RistrettoPoint.Equal:decoded-vs-representative", "a=%x T4[%d] lam=%x", []byte(c.A), j, []byte(c.Lam[j]))
			}
		}
	}

	// a second point: same element or not
	b := c.Q.a()
	same := ref.SMod(new(big.Int).Sub(a, b)).Sign() == 0 && c.Q.J%2 == 0
	qpt := c.Q.point()
	if ref.RistEqual(base, qpt) != same {
		return r.Fail("harness:oracle-disagreement", "a=%x b=%x j=%d RFC EQUALS=%v index arithmetic=%v", []byte(c.A), []byte(c.Q.A), c.Q.J, !same, same).Result()
	}
	if same {
		r.Class("q:same-element")
	} else if c.Q.J%2 == 1 {
		r.Class("q:outside-2E")
	} else {
		r.Class("q:different-element")
	}
	q := c.Q.build(qpt)
	wantEq := 0
	if same {
		wantEq = 1
	}
	for j := 0; j < 4; j++ {
		r.Eval(2)
		if g1, g2 := reps[j].Equal(q), q.Equal(reps[j]); g1 != wantEq || g2 != wantEq {
			r.Fail("RistrettoPoint.Equal:wrong", "a=%x T4[%d] lam=%x vs b=%x T8[%d] lam=%x via=%d: got %d/%d want %d",
				[]byte(c.A), j, []byte(c.Lam[j]), []byte(c.Q.A), c.Q.J, []byte(c.Q.Lam), c.Q.Via, g1, g2, wantEq)
		}
	}
	r.Eval(1)
	encQ := c11Compress(q)
	refQ := ref.RistEncode(qpt)
	if c.Q.J%2 == 0 {
		if !bytes.Equal(encQ, refQ) {
			r.Fail("CompressedRistretto.SetRistrettoPoint:wrong-encoding", "b=%x T8[%d] lam=%x via=%d got=%x want=%x", []byte(c.Q.A), c.Q.J, []byte(c.Q.Lam), c.Q.Via, encQ, refQ)
		}
		if bytes.Equal(refQ, want) != same {
			return r.Fail("harness:oracle-disagreement", "a=%x b=%x reference encodings equal=%v, same element=%v", []byte(c.A), []byte(c.Q.A), !same, same).Result()
		}
	}
	if bytes.Equal(encQ, want) != same && (c.Q.J%2 == 0 || !bytes.Equal(refQ, want)) {
		r.Fail("CompressedRistretto.SetRistrettoPoint:distinct-points-same-bytes", "a=%x vs b=%x T8[%d] lam=%x: both encode to %x", []byte(c.A), []byte(c.Q.A), c.Q.J, []byte(c.Q.Lam), encQ)
	}
	return r.Result()
}

func TestC11Coset(t *testing.T) { h.Run(t, c11GenCoset, c11CheckCoset) }

// TestC11CosetList: every multiple 0..32 and L-1..L-8 of B, in all four
// representatives, against its neighbour and its order-8 shifts.
func TestC11CosetList(t *testing.T) {
	var cases []c11CosetCase
	one := h.Hex(ref.ToLE(big.NewInt(1), 32))
	two := h.Hex(ref.ToLE(big.NewInt(2), 32))
	var as []*big.Int
	for k := int64(0); k <= 32; k++ {
		as = append(as, big.NewInt(k))
	}
	for k := int64(1); k <= 8; k++ {
		as = append(as, new(big.Int).Sub(ref.L, big.NewInt(k)))
	}
	for _, a := range as {
		for j := 0; j < 8; j++ {
			b := a
			rel := "same"
			if j%2 == 1 {
				rel = "odd-torsion"
			}
			cases = append(cases, c11CosetCase{A: ref.ToLE(a, 32), ACls: "list", Lam: [4]h.Hex{one, two, one, two}, Via: [4]int{0, 0, 2, 1},
				Rel: rel, Q: c11Rep{A: ref.ToLE(b, 32), J: j, Lam: two, Via: j % c11ViaCount}})
		}
		cases = append(cases, c11CosetCase{A: ref.ToLE(a, 32), ACls: "list", Lam: [4]h.Hex{two, one, two, one}, Via: [4]int{1, 2, 0, 0},
			Rel: "plus-1", Q: c11Rep{A: ref.ToLE(ref.SAdd(a, big.NewInt(1)), 32), J: 2, Lam: one, Via: 0}})
		cases = append(cases, c11CosetCase{A: ref.ToLE(a, 32), ACls: "list", Lam: [4]h.Hex{two, one, two, one}, Via: [4]int{1, 2, 0, 0},
			Rel: "neg", Q: c11Rep{A: ref.ToLE(ref.SNeg(a), 32), J: 4, Lam: two, Via: 1}})
	}
	h.RunList(t, cases, c11CheckCoset)
}

// ------------------------------------------------------- the one-way map

type c11UniCase struct {
	In  h.Hex // 64 bytes
	Cls [2]string
	Rel string
}

func c11GenUni(t *rapid.T) c11UniCase {
	var c c11UniCase
	lo, c0 := h.C11GenFieldString(t, "lo")
	hi, c1 := h.C11GenFieldString(t, "hi")
	c.Rel = rapid.SampledFrom([]string{"independent", "independent", "independent", "independent", "same", "negated", "uniform64"}).Draw(t, "rel")
	switch c.Rel {
	case "same":
		hi, c1 = append([]byte(nil), lo...), c0
	case "negated": // MAP(t) = MAP(-t): the sum is a doubling
		hi, c1 = ref.ToLE(ref.FNeg(ref.FDecode(lo)), 32), "neg:"+c0
	case "uniform64":
		u := h.UniformBytes(t, 64, "u")
		lo, hi, c0, c1 = u[:32], u[32:], "uniform256", "uniform256"
	}
	c.In = append(append([]byte(nil), lo...), hi...)
	c.Cls = [2]string{c0, c1}
	return c
}

func c11NonCanonicalHalf(b []byte) bool {
	return b[31]&0x80 != 0 || ref.FromLE(b).Cmp(ref.P) >= 0
}

func c11CheckUni(c c11UniCase) h.Result {
	r := h.NewR().Class("lo:"+c.Cls[0], "hi:"+c.Cls[1], "rel:"+c.Rel)
	if len(c.In) != 64 {
		return r.Fail("harness:bad-case", "len=%d", len(c.In)).Result()
	}
	in := append([]byte(nil), c.In...)
	r.NT(c11NonCanonicalHalf(in[:32]) || c11NonCanonicalHalf(in[32:]) || c.Rel == "same" || c.Rel == "negated")
	t0, t1 := ref.FDecode(in[:32]), ref.FDecode(in[32:])
	m0, m1 := ref.RistMap(t0), ref.RistMap(t1)
	if !m0.OnCurve() || !m1.OnCurve() {
		return r.Fail("harness:oracle-disagreement", "in=%x reference MAP left the curve", in).Result()
	}
	sum := ref.RistFromUniform(in)
	want := ref.RistEncode(sum)
	if _, ok := ref.RistDecode(want); !ok {
		return r.Fail("harness:oracle-disagreement", "in=%x reference image does not decode", in).Result()
	}

	// each half through the Elligator map
	for i, tv := range []*big.Int{t0, t1} {
		r.Eval(1)
		half := in[32*i : 32*i+32]
		var fe field.Element
		if _, err := fe.SetBytes(half); err != nil {
			return r.Fail("field.Element.SetBytes:error", "%v", err).Result()
		}
		var e RistrettoPoint
		e.elligatorRistrettoFlavor(&fe)
		wantHalf := ref.RistEncode(ref.RistMap(tv))
		if _, bad := c11Affine(&e); bad != "" {
			r.Fail("RistrettoPoint.elligatorRistrettoFlavor:malformed-point", "t=%x %s", half, bad)
		} else if got := c11Compress(&e); !bytes.Equal(got, wantHalf) {
			r.Fail("RistrettoPoint.elligatorRistrettoFlavor:wrong-element", "t=%x got=%x want=%x", half, got, wantHalf)
		}
	}

	// SetUniformBytes
	r.Eval(1)
	recv := c11Marker()
	ret, err := recv.SetUniformBytes(in)
	if err != nil || ret != recv {
		return r.Fail("RistrettoPoint.SetUniformBytes:error-on-64-bytes", "in=%x err=%v", in, err).Result()
	}
	got := c11Compress(recv)
	if !bytes.Equal(got, want) {
		r.Fail("RistrettoPoint.SetUniformBytes:wrong-element", "in=%x got=%x want=%x", in, got, want)
	}
	if aff, bad := c11Affine(recv); bad != "" {
		r.Fail("RistrettoPoint.SetUniformBytes:malformed-point", "in=%x %s", in, bad)
	} else if !ref.RistEqual(aff, sum) {
		r.Fail("RistrettoPoint.SetUniformBytes:wrong-element", "in=%x (internal representative outside the coset)", in)
	}
	// its encoding decodes, to an equal point
	r.Eval(1)
	var cp CompressedRistretto
	copy(cp[:], got)
	var dec RistrettoPoint
	if _, err := dec.SetCompressed(&cp); err != nil {
		r.Fail("RistrettoPoint.SetCompressed:rejected-encoder-output", "enc=%x err=%v", got, err)
	} else if dec.Equal(recv) != 1 {
		r.Fail("RistrettoPoint.Equal:decoded-vs-representative", "uniform=%x", in)
	}
	// SetRandom reads exactly the 64 bytes
	r.Eval(1)
	rnd := c11Marker()
	rd := bytes.NewReader(append(append([]byte(nil), in...), 0xaa, 0xbb))
	if _, err := rnd.SetRandom(rd); err != nil {
		r.Fail("RistrettoPoint.SetRandom:error", "err=%v", err)
	} else if g := c11Compress(rnd); !bytes.Equal(g, want) || rd.Len() != 2 {
		r.Fail("RistrettoPoint.SetRandom:wrong-element", "in=%x got=%x want=%x unread=%d", in, g, want, rd.Len())
	}
	// ... also from a reader that hands out one byte per Read call
	r.Eval(1)
	rnd = c11Marker()
	if _, err := rnd.SetRandom(iotest.OneByteReader(bytes.NewReader(in))); err != nil {
		r.Fail("RistrettoPoint.SetRandom:error", "one-byte reader: err=%v", err)
	} else if g := c11Compress(rnd); !bytes.Equal(g, want) {
		r.Fail("RistrettoPoint.SetRandom:wrong-element", "one-byte reader: in=%x got=%x want=%x", in, g, want)
	}
	if !bytes.Equal(in, c.In) {
		r.Fail("RistrettoPoint.SetUniformBytes:input-modified", "")
	}
	return r.Result()
}

func TestC11Uniform(t *testing.T) { h.Run(t, c11GenUni, c11CheckUni) }

// TestC11UniformList: both halves over every non-canonical spelling p+k
// (k = 0..18), the canonical k, and the bit-255 variants; plus the four RFC
// element-derivation inputs that exist to pin down exactly those two things.
func TestC11UniformList(t *testing.T) {
	var halves [][]byte
	for k := int64(0); k < 19; k++ {
		for _, v := range []*big.Int{big.NewInt(k), new(big.Int).Add(ref.P, big.NewInt(k))} {
			b := ref.ToLE(v, 32)
			halves = append(halves, b)
			hb := append([]byte(nil), b...)
			hb[31] |= 0x80
			halves = append(halves, hb)
		}
	}
	var cases []c11UniCase
	for i, lo := range halves {
		for _, hi := range [][]byte{halves[(i*7+3)%len(halves)], halves[len(halves)-1-i], lo} {
			cases = append(cases, c11UniCase{In: append(append([]byte(nil), lo...), hi...), Cls: [2]string{"list", "list"}, Rel: "list"})
		}
	}
	// RFC 9496 A.3: the four inputs that "all produce the same ristretto255
	// element" (the reference reproduces the published output in its self-test)
	for _, hx := range []string{
		"edffffffffffffffffffffffffffffffffffffffffffffffffffffffffffffff1200000000000000000000000000000000000000000000000000000000000000",
		"edffffffffffffffffffffffffffffffffffffffffffffffffffffffffffff7fffffffffffffffffffffffffffffffffffffffffffffffffffffffffffffffff",
		"0000000000000000000000000000000000000000000000000000000000000080ffffffffffffffffffffffffffffffffffffffffffffffffffffffffffffff7f",
		"00000000000000000000000000000000000000000000000000000000000000001200000000000000000000000000000000000000000000000000000000000080",
	} {
		b, err := hex.DecodeString(hx)
		if err != nil {
			panic(err)
		}
		cases = append(cases, c11UniCase{In: b, Cls: [2]string{"rfc9496-A.3", "rfc9496-A.3"}, Rel: "list"})
	}
	h.RunList(t, cases, c11CheckUni)
}

// ------------------------------------------------------ native fuzz target

// FuzzC11Decode feeds arbitrary byte strings to the same pure checks
// (thorough tier only; seeded with the RFC vectors and boundary strings).
// 32-byte inputs go through the decoder check, everything else through the
// wrong-length check.
func FuzzC11Decode(f *testing.F) {
	unhex := func(s string) []byte {
		var x h.Hex
		if err := x.UnmarshalJSON([]byte(`"` + s + `"`)); err != nil {
			panic(err)
		}
		return x
	}
	for _, s := range h.C11RistBadEncodings {
		f.Add(unhex(s))
	}
	for _, s := range h.C11RistMultiples {
		f.Add(unhex(s))
	}
	f.Add(ref.ToLE(ref.P, 32))
	f.Add(ref.ToLE(ref.SqrtM1, 32))
	f.Add([]byte{})
	f.Add(make([]byte, 31))
	f.Add(make([]byte, 33))
	f.Add(make([]byte, 64))
	one := h.Hex(ref.ToLE(big.NewInt(1), 32))
	f.Fuzz(func(t *testing.T, data []byte) {
		var res h.Result
		if len(data) == 32 {
			res = c11CheckDec(c11DecCase{In: append([]byte(nil), data...), Cls: "fuzz", K: int(data[0]>>1) & 3, Lam: one})
		} else {
			if len(data) > 4096 {
				return
			}
			res = c11CheckAnyLen(c11AnyLenCase{In: append([]byte(nil), data...), Cls: "fuzz"})
		}
		if res.Viol != nil {
			t.Fatalf("VERIF-FUZZ-VIOLATION sig=%s input=%x detail=%s", res.Viol.Sig, data, res.Viol.Detail)
		}
	})
}
