//go:build verif && amd64 && !purego && !force32bit

package curve

import (
	"testing"

	h "verifh"
)

func TestC20AfterUseVector(t *testing.T) {
	c20OrdinaryUse()
	var cases []c20Case
	if supportsVectorizedEdwards {
		for i := 0; i < 32; i++ {
			for j := 0; j < 8; j++ {
				cases = append(cases, c20Case{Name: "ED25519_BASEPOINT_TABLE/vector", Enc: "avx2-lanes", I: i, J: j})
			}
		}
		for _, n := range []string{"constVECTOR_ODD_MULTIPLES_OF_BASEPOINT", "constVECTOR_ODD_MULTIPLES_OF_B_SHL_128"} {
			for j := 0; j < 64; j++ {
				cases = append(cases, c20Case{Name: n, Enc: "avx2-lanes", J: j})
			}
		}
	}
	h.RunList(t, cases, c20CheckVector)
}
