//go:build verif

package curve_test

// C03 — group law and every scalar-multiplication routine give the true group
// result.  This file drives the *public* EdwardsPoint API from outside the
// package (the dispatch by CPU feature and by term count is whatever the
// library chooses); c03_impl_test.go calls every implementation explicitly.
//
// Oracle: verifref (math/big, affine / RFC 8032 formulas).  Points are known by
// construction as [a]B + T[j]; they enter the library only through the
// canonical encoding computed by the reference.

import (
	"bytes"
	"fmt"
	"testing"

	"github.com/oasisprotocol/curve25519-voi/curve"
	"github.com/oasisprotocol/curve25519-voi/curve/scalar"
	"pgregory.net/rapid"
	h "verifh"
	ref "verifref"
)

// ------------------------------------------------------------------ helpers

func c03Load(enc []byte) (*curve.EdwardsPoint, error) {
	var cp curve.CompressedEdwardsY
	if _, err := cp.SetBytes(enc); err != nil {
		return nil, err
	}
	p := curve.NewEdwardsPoint()
	if _, err := p.SetCompressedY(&cp); err != nil {
		return nil, err
	}
	return p, nil
}

func c03Enc(p *curve.EdwardsPoint) []byte {
	b, err := p.MarshalBinary()
	if err != nil {
		panic(err)
	}
	return b
}

func c03Scalar(b []byte) *scalar.Scalar {
	s, err := scalar.NewFromBits(b)
	if err != nil {
		panic(err)
	}
	return s
}

func c03ScalarBytes(s *scalar.Scalar) []byte {
	var out [32]byte
	if err := s.ToBytes(out[:]); err != nil {
		panic(err)
	}
	return out[:]
}

func c03Copy(p *curve.EdwardsPoint) *curve.EdwardsPoint { return curve.NewEdwardsPoint().Set(p) }

// c03Dirty returns a receiver holding a stale, unrelated value (the basepoint):
// every operation must overwrite its receiver completely, also for empty input.
func c03Dirty() *curve.EdwardsPoint { return c03Copy(curve.ED25519_BASEPOINT_POINT) }

// c03Rerep returns the same point in a different projective representation,
// using only public operations (from outside the package Z cannot be set
// directly).  aux is any valid point.  mode 0 keeps the decoded (Z = 1) form.
func c03Rerep(p, aux *curve.EdwardsPoint, mode int) *curve.EdwardsPoint {
	switch mode % 4 {
	case 1: // (p + aux) - aux
		q := curve.NewEdwardsPoint().Add(p, aux)
		return q.Sub(q, aux)
	case 2: // identity + p
		return curve.NewEdwardsPoint().Add(curve.NewEdwardsPoint(), p)
	case 3: // (p - aux) + aux
		q := curve.NewEdwardsPoint().Sub(p, aux)
		return q.Add(q, aux)
	}
	return c03Copy(p)
}

// c03LoadSpec loads a point given by construction, re-represents it, and
// verifies that the representation change kept the point.
func c03LoadSpec(r *h.R, ps h.PointSpec, mode int) (*curve.EdwardsPoint, ref.Point, bool) {
	rp := h.C03SpecPoint(ps)
	return c03LoadRef(r, rp, mode)
}

var c03AuxEnc = h.C03SpecPoint(h.PointSpec{A: h.Hex{0x39, 0x30}, J: 3}).Encode() // [12345]B + T[3]

// c03NonCanon maps the canonical encoding of a point to its non-canonical
// encodings (y >= p, or x = 0 with the sign bit set).  Only a few small-order
// points have any; decoding one of them (documented as accepted) yields the
// same point with an unreduced internal Y, one more representation that the
// group operations must be independent of.
var c03NonCanon = func() map[string][][]byte {
	m := map[string][][]byte{}
	for _, b := range h.AllNonCanonicalPointStrings() {
		if di := ref.Decode(b); di.OK {
			k := string(di.P.Encode())
			m[k] = append(m[k], b)
		}
	}
	return m
}()

// mode: bits 0-1 select the re-representation (c03Rerep), bit 2 asks for a
// non-canonical encoding when the point has one, bits 3.. select which.
func c03LoadRef(r *h.R, rp ref.Point, mode int) (*curve.EdwardsPoint, ref.Point, bool) {
	enc := rp.Encode()
	loadEnc := enc
	if mode&4 != 0 {
		if al := c03NonCanon[string(enc)]; len(al) > 0 {
			loadEnc = al[(mode>>3)%len(al)]
			r.Class("operand:noncanonical-encoding").NT(true)
		}
	}
	p, err := c03Load(loadEnc)
	if err != nil {
		r.Fail("EdwardsPoint.SetCompressedY:rejected-valid-point", "enc=%x err=%v", loadEnc, err)
		return nil, rp, false
	}
	if mode%4 == 0 && (mode>>3)&1 == 0 && bytes.Equal(enc, c03BasepointEnc) {
		// the operand IS the package's exported base point object (what a caller writes: points = {B, A}), not a copy
		// of its value: a routine that recognises it by address takes another path than for an equal point elsewhere
		p = curve.ED25519_BASEPOINT_POINT
		r.Class("operand:exported-basepoint-object").NT(true)
	}
	if mode%4 != 0 {
		aux, err := c03Load(c03AuxEnc)
		if err != nil {
			r.Fail("EdwardsPoint.SetCompressedY:rejected-valid-point", "enc=%x err=%v", c03AuxEnc, err)
			return nil, rp, false
		}
		p = c03Rerep(p, aux, mode)
	}
	r.Eval(1)
	if got := c03Enc(p); !bytes.Equal(got, enc) {
		r.Fail("EdwardsPoint:load-rerepresent-changed-point", "mode=%d enc=%x got=%x", mode%4, enc, got)
		return nil, rp, false
	}
	return p, rp, true
}

var c03BasepointEnc = ref.Base.Encode()

var c03AuxRef = h.C03SpecPoint(h.PointSpec{A: h.Hex{0x39, 0x30}, J: 3})

func c03Expect(r *h.R, op string, got *curve.EdwardsPoint, want ref.Point) {
	r.Eval(2)
	if g, w := c03Enc(got), want.Encode(); !bytes.Equal(g, w) {
		r.Fail("EdwardsPoint."+op+":wrong-result", "got=%x want=%x", g, w)
		return
	}
	// The encoding (like Equal) reads X, Y and Z only; the extended coordinate
	// T = XY/Z is read by the NEXT addition.  A result is only "exactly the point"
	// if it also works as an operand: got + aux must be want + aux.
	aux, err := c03Load(c03AuxEnc)
	if err != nil {
		panic(err)
	}
	var sum curve.EdwardsPoint
	sum.Add(got, aux)
	if g, w := c03Enc(&sum), ref.Add(want, c03AuxRef).Encode(); !bytes.Equal(g, w) {
		r.Fail("EdwardsPoint."+op+":result-unusable-as-operand", "the result encodes correctly (%x) but result + aux = %x, want %x: inconsistent T coordinate", c03Enc(got), g, w)
	}
}

func c03SpecCls(ps h.PointSpec) string {
	switch {
	case ps.IsIdentity():
		return "identity"
	case ps.IsSmallOrder():
		return "torsion"
	case ps.J%8 != 0:
		return "mixed-order"
	}
	return "prime-order"
}

// ------------------------------------------------------------------ group law

type c03GLCase struct {
	P, Q       h.PointSpec
	Extra      []h.PointSpec
	RepP, RepQ int
}

func c03GenGL(t *rapid.T) c03GLCase {
	var c c03GLCase
	c.P = h.C03GenPoint(t, "p", false, false)
	switch rapid.IntRange(0, 9).Draw(t, "rel") {
	case 0: // same point
		c.Q = c.P
	case 1: // inverse: -([a]B + T[j]) = [L-a]B + T[-j]
		c.Q = h.PointSpec{A: h.Hex(ref.SEncode(ref.SNeg(ref.FromLE(c.P.A)))), J: (8 - c.P.J%8) % 8, Cls: "neg-of-p"}
	case 3: // -p + T[4] = (x, -y): same x-coordinate, and p + T[4] = (-x, -y)
		c.Q = h.PointSpec{A: h.Hex(ref.SEncode(ref.SNeg(ref.FromLE(c.P.A)))), J: (12 - c.P.J%8) % 8, Cls: "mirror-of-p"}
	case 2: // same prime-order part, different torsion
		c.Q = h.PointSpec{A: c.P.A, J: rapid.IntRange(0, 7).Draw(t, "qj"), Cls: "p+torsion"}
	default:
		c.Q = h.C03GenPoint(t, "q", false, false)
	}
	n := rapid.IntRange(0, 6).Draw(t, "nextra")
	for i := 0; i < n; i++ {
		c.Extra = append(c.Extra, h.C03GenPoint(t, "e", true, false))
	}
	c.RepP = rapid.IntRange(0, 31).Draw(t, "repp")
	c.RepQ = rapid.IntRange(0, 31).Draw(t, "repq")
	return c
}

func c03CheckGL(c c03GLCase) h.Result {
	r := h.NewR().Class("p:"+c03SpecCls(c.P), "q:"+c03SpecCls(c.Q), fmt.Sprintf("rep:%d/%d", c.RepP%4, c.RepQ%4))
	r.NT(h.C03PointNonTrivial(c.P) || h.C03PointNonTrivial(c.Q))
	p, pr, ok := c03LoadSpec(r, c.P, c.RepP)
	if !ok {
		return r.Result()
	}
	q, qr, ok := c03LoadSpec(r, c.Q, c.RepQ)
	if !ok {
		return r.Result()
	}
	pEnc, qEnc := pr.Encode(), qr.Encode()
	same := bytes.Equal(pEnc, qEnc)
	if same {
		r.Class("p==q").NT(true)
	}
	New := c03Dirty

	c03Expect(r, "Add", New().Add(p, q), ref.Add(pr, qr))
	c03Expect(r, "Add", New().Add(q, p), ref.Add(pr, qr))
	c03Expect(r, "Sub", New().Sub(p, q), ref.Sub(pr, qr))
	c03Expect(r, "Sub", New().Sub(q, p), ref.Sub(qr, pr))
	c03Expect(r, "Neg", New().Neg(p), ref.Neg(pr))
	c03Expect(r, "Add(p,p)", New().Add(p, p), ref.AddAffine(pr, pr))
	c03Expect(r, "MulByCofactor", New().MulByCofactor(p), ref.MulByCofactor(pr))
	c03Expect(r, "Sub(p,p)", New().Sub(p, p), ref.Identity())
	c03Expect(r, "Add(p,-p)", New().Add(p, New().Neg(p)), ref.Identity())

	// aliasing: the receiver is one or both operands
	x := c03Copy(p)
	c03Expect(r, "Add(alias:recv=a)", x.Add(x, q), ref.Add(pr, qr))
	x = c03Copy(q)
	c03Expect(r, "Add(alias:recv=b)", x.Add(p, x), ref.Add(pr, qr))
	x = c03Copy(p)
	c03Expect(r, "Add(alias:recv=a=b)", x.Add(x, x), ref.Double(pr))
	x = c03Copy(p)
	c03Expect(r, "Sub(alias:recv=a)", x.Sub(x, q), ref.Sub(pr, qr))
	x = c03Copy(q)
	c03Expect(r, "Sub(alias:recv=b)", x.Sub(p, x), ref.Sub(pr, qr))
	x = c03Copy(p)
	c03Expect(r, "Sub(alias:recv=a=b)", x.Sub(x, x), ref.Identity())
	x = c03Copy(p)
	c03Expect(r, "Neg(alias)", x.Neg(x), ref.Neg(pr))
	x = c03Copy(p)
	c03Expect(r, "MulByCofactor(alias)", x.MulByCofactor(x), ref.MulByCofactor(pr))

	// Sum
	vals := []*curve.EdwardsPoint{p, q}
	want := ref.Add(pr, qr)
	for i, es := range c.Extra {
		e, er, ok := c03LoadSpec(r, es, c.RepP+i)
		if !ok {
			return r.Result()
		}
		vals = append(vals, e)
		want = ref.Add(want, er)
	}
	c03Expect(r, "Sum", New().Sum(vals), want)
	c03Expect(r, "Sum(empty)", c03Copy(p).Sum(nil), ref.Identity())
	c03Expect(r, "Sum(one)", New().Sum(vals[:1]), pr)
	// the receiver may be one of the summands, as for every other operation of this API
	x = c03Copy(p)
	c03Expect(r, "Sum(alias)", x.Sum([]*curve.EdwardsPoint{x, q}), ref.Add(pr, qr))
	x = c03Copy(q)
	c03Expect(r, "Sum(alias)", x.Sum([]*curve.EdwardsPoint{p, x, p}), ref.Add(ref.Add(pr, qr), pr))

	// Equal / IsIdentity against the reference encodings
	r.Eval(4)
	if got := p.Equal(q); (got == 1) != same || (got != 0 && got != 1) {
		r.Fail("EdwardsPoint.Equal:wrong", "p=%x q=%x got=%d", pEnc, qEnc, got)
	}
	if got := p.Equal(c03Rerep(p, q, c.RepQ+1)); got != 1 {
		r.Fail("EdwardsPoint.Equal:representation-dependent", "p=%x", pEnc)
	}
	negSame := pr.X.Sign() == 0
	if got := p.Equal(New().Neg(p)); (got == 1) != negSame {
		r.Fail("EdwardsPoint.Equal:wrong", "p=%x vs -p got=%d", pEnc, got)
	}
	if got := p.IsIdentity(); got != c.P.IsIdentity() {
		r.Fail("EdwardsPoint.IsIdentity:wrong", "p=%x got=%v", pEnc, got)
	}
	// operands untouched
	r.Eval(1)
	if !bytes.Equal(c03Enc(p), pEnc) || !bytes.Equal(c03Enc(q), qEnc) {
		r.Fail("EdwardsPoint:operand-modified", "p=%x q=%x", pEnc, qEnc)
	}
	return r.Result()
}

func TestC03GroupLaw(t *testing.T) { h.Run(t, c03GenGL, c03CheckGL) }

// ------------------------------------------------- single / double scalar mul

type c03MulCase struct {
	P       h.PointSpec
	RepP    int
	S, S2   h.Hex
	SC, S2C string
	Direct  bool
}

func c03GenMul(t *rapid.T) c03MulCase {
	var c c03MulCase
	c.P = h.C03GenPoint(t, "p", false, false)
	c.RepP = rapid.IntRange(0, 31).Draw(t, "rep")
	c.S, c.SC = h.C03GenScalar(t, "s")
	c.S2, c.S2C = h.C03GenScalar(t, "s2")
	c.Direct = rapid.IntRange(0, 7).Draw(t, "direct") == 0
	return c
}

var c03SpecB = h.PointSpec{A: h.Hex{1}, J: 0, Cls: "B"}

func c03CheckMul(c c03MulCase) h.Result {
	r := h.NewR().Class("p:"+c03SpecCls(c.P), "s:"+c.SC, "s2:"+c.S2C)
	r.NT(h.C03PointNonTrivial(c.P) || h.C03ScalarNonTrivial(c.S, c.SC) || h.C03ScalarNonTrivial(c.S2, c.S2C))
	if ref.FromLE(c.S).Cmp(ref.L) >= 0 || ref.FromLE(c.S2).Cmp(ref.L) >= 0 {
		r.Class("unreduced")
	}
	p, pr, ok := c03LoadSpec(r, c.P, c.RepP)
	if !ok {
		return r.Result()
	}
	pEnc := pr.Encode()
	s, s2 := c03Scalar(c.S), c03Scalar(c.S2)
	New := c03Dirty

	sP := h.C03Expected([]h.C03Term{{P: c.P, S: c.S}}, c.Direct)
	s2P := h.C03Expected([]h.C03Term{{P: c.P, S: c.S2}}, false)
	sB := h.C03Expected([]h.C03Term{{P: c03SpecB, S: c.S}}, c.Direct)
	sPs2B := h.C03Expected([]h.C03Term{{P: c.P, S: c.S}, {P: c03SpecB, S: c.S2}}, c.Direct)

	c03Expect(r, "Mul", New().Mul(p, s), sP)
	x := c03Copy(p)
	c03Expect(r, "Mul(alias)", x.Mul(x, s), sP)
	c03Expect(r, "MulBasepoint(ED25519_BASEPOINT_TABLE)", New().MulBasepoint(curve.ED25519_BASEPOINT_TABLE, s), sB)
	c03Expect(r, "EdwardsBasepointTable.Basepoint(ED25519)", curve.ED25519_BASEPOINT_TABLE.Basepoint(), ref.Base)

	tbl := curve.NewEdwardsBasepointTable(p)
	c03Expect(r, "EdwardsBasepointTable.Basepoint", tbl.Basepoint(), pr)
	c03Expect(r, "MulBasepoint(NewEdwardsBasepointTable)", New().MulBasepoint(tbl, s), sP)
	c03Expect(r, "MulBasepoint(NewEdwardsBasepointTable)", New().MulBasepoint(tbl, s2), s2P)

	c03Expect(r, "DoubleScalarMulBasepointVartime", New().DoubleScalarMulBasepointVartime(s, p, s2), sPs2B)
	x = c03Copy(p)
	c03Expect(r, "DoubleScalarMulBasepointVartime(alias)", x.DoubleScalarMulBasepointVartime(s, x, s2), sPs2B)

	ep := curve.NewExpandedEdwardsPoint(p)
	c03Expect(r, "ExpandedEdwardsPoint.Point", ep.Point(), pr)
	c03Expect(r, "SetExpanded", New().SetExpanded(ep), pr)
	c03Expect(r, "ExpandedDoubleScalarMulBasepointVartime", New().ExpandedDoubleScalarMulBasepointVartime(s, ep, s2), sPs2B)
	// an expanded point that is re-used as a receiver
	ep2 := curve.NewExpandedEdwardsPoint(curve.ED25519_BASEPOINT_POINT)
	ep2.SetEdwardsPoint(p)
	c03Expect(r, "ExpandedDoubleScalarMulBasepointVartime(reset)", New().ExpandedDoubleScalarMulBasepointVartime(s, ep2, s2), sPs2B)

	// the point handed out by Point() is the caller's: using it as an arithmetic
	// receiver must not change what the expanded point stands for
	ep4 := curve.NewExpandedEdwardsPoint(p)
	hand := ep4.Point()
	hand.Add(hand, curve.ED25519_BASEPOINT_POINT)
	c03Expect(r, "ExpandedEdwardsPoint.Point(after-caller-modified-the-returned-point)", ep4.Point(), pr)
	c03Expect(r, "SetExpanded(after-caller-modified-the-returned-point)", New().SetExpanded(ep4), pr)
	c03Expect(r, "ExpandedDoubleScalarMulBasepointVartime(after-caller-modified-the-returned-point)", New().ExpandedDoubleScalarMulBasepointVartime(s, ep4, s2), sPs2B)

	// a by-value snapshot of an expanded point keeps computing with its own
	// point after the original has been re-set, and the original with its new one
	ep3 := curve.NewExpandedEdwardsPoint(p)
	snap := *ep3
	ep3.SetEdwardsPoint(curve.ED25519_BASEPOINT_POINT)
	sBs2B := h.C03Expected([]h.C03Term{{P: c03SpecB, S: c.S}, {P: c03SpecB, S: c.S2}}, false)
	c03Expect(r, "ExpandedEdwardsPoint(value-copy).Point", snap.Point(), pr)
	c03Expect(r, "ExpandedDoubleScalarMulBasepointVartime(value-copy,original-reset)", New().ExpandedDoubleScalarMulBasepointVartime(s, &snap, s2), sPs2B)
	c03Expect(r, "ExpandedMultiscalarMulVartime(value-copy,original-reset)", New().ExpandedMultiscalarMulVartime([]*scalar.Scalar{s}, []*curve.ExpandedEdwardsPoint{&snap}, nil, nil), sP)
	c03Expect(r, "ExpandedDoubleScalarMulBasepointVartime(original-after-reset)", New().ExpandedDoubleScalarMulBasepointVartime(s, ep3, s2), sBs2B)

	// one-term multiscalar forms
	ss, pp := []*scalar.Scalar{s}, []*curve.EdwardsPoint{p}
	c03Expect(r, "MultiscalarMul(n=1)", New().MultiscalarMul(ss, pp), sP)
	c03Expect(r, "MultiscalarMulVartime(n=1)", New().MultiscalarMulVartime(ss, pp), sP)

	r.Eval(1)
	if !bytes.Equal(c03Enc(p), pEnc) || !bytes.Equal(c03ScalarBytes(s), c.S) || !bytes.Equal(c03ScalarBytes(s2), c.S2) {
		r.Fail("EdwardsPoint.Mul*:operand-modified", "p=%x", pEnc)
	}
	return r.Result()
}

func TestC03ScalarMul(t *testing.T) { h.Run(t, c03GenMul, c03CheckMul) }

// --------------------------------------------------------- multiscalar mul

type c03MSMCase struct {
	Terms   []h.C03Term
	Static  int    // the first Static terms are passed as expanded (precomputed) points
	RepSeed uint64 // per-term representation modes
	Direct  bool
}

func c03GenMSM(t *rapid.T, large bool) c03MSMCase {
	var c c03MSMCase
	var n int
	switch {
	case large:
		// hashed so that every threshold length is equally likely (rapid's own
		// integer draws are biased towards the first entries)
		n = h.C03LargeN[h.C03UniformIndex(t, len(h.C03LargeN), "n")]
	case rapid.IntRange(0, 9).Draw(t, "nk") < 6:
		n = rapid.SampledFrom(h.C03SmallN).Draw(t, "n")
	default:
		n = rapid.IntRange(0, 64).Draw(t, "n")
	}
	c.Terms = h.C03GenTerms(t, n, large || n > 20, false)
	switch rapid.IntRange(0, 4).Draw(t, "sk") {
	case 0:
		c.Static = 0
	case 1:
		c.Static = n
	case 2:
		c.Static = n / 2
	case 3:
		c.Static = 1
	default:
		c.Static = rapid.IntRange(0, n).Draw(t, "static")
	}
	if c.Static > n {
		c.Static = n
	}
	c.RepSeed = rapid.Uint64().Draw(t, "rep")
	c.Direct = n <= 20 && rapid.IntRange(0, 7).Draw(t, "direct") == 0
	return c
}

func c03CheckMSM(c c03MSMCase) h.Result {
	n := len(c.Terms)
	r := h.NewR().Class(fmt.Sprintf("n=%s", c03NClass(n))).Class(h.C03TermClasses(c.Terms)...)
	r.NT(h.C03TermsNonTrivial(c.Terms))
	if c.Static < 0 || c.Static > n {
		c.Static = n
	}
	rps := h.C03Points(c.Terms)
	modes := h.Expand(c.RepSeed, n)
	pts := make([]*curve.EdwardsPoint, n)
	scs := make([]*scalar.Scalar, n)
	for i := range c.Terms {
		p, _, ok := c03LoadRef(r, rps[i], int(modes[i]))
		if !ok {
			return r.Result()
		}
		pts[i] = p
		scs[i] = c03Scalar(c.Terms[i].S)
	}
	want := h.C03Expected(c.Terms, c.Direct)
	New := c03Dirty

	c03Expect(r, "MultiscalarMul", New().MultiscalarMul(scs, pts), want)
	c03Expect(r, "MultiscalarMulVartime", New().MultiscalarMulVartime(scs, pts), want)

	eps := make([]*curve.ExpandedEdwardsPoint, c.Static)
	for i := range eps {
		eps[i] = curve.NewExpandedEdwardsPoint(pts[i])
	}
	c03Expect(r, "ExpandedMultiscalarMulVartime", New().ExpandedMultiscalarMulVartime(scs[:c.Static], eps, scs[c.Static:], pts[c.Static:]), want)
	if n > 0 {
		// receiver is a stale non-identity value: the routines must overwrite it
		x := c03Copy(pts[0])
		c03Expect(r, "MultiscalarMulVartime(dirty-receiver)", x.MultiscalarMulVartime(scs, pts), want)
		x = c03Copy(pts[n-1])
		c03Expect(r, "MultiscalarMul(dirty-receiver)", x.MultiscalarMul(scs, pts), want)
		// the receiver IS one of the input points (first, last, or a middle one)
		for _, k := range []int{0, n - 1, n / 2} {
			al := append([]*curve.EdwardsPoint(nil), pts...)
			al[k] = c03Copy(pts[k])
			c03Expect(r, "MultiscalarMul(receiver-is-an-input-point)", al[k].MultiscalarMul(scs, al), want)
			al[k] = c03Copy(pts[k])
			c03Expect(r, "MultiscalarMulVartime(receiver-is-an-input-point)", al[k].MultiscalarMulVartime(scs, al), want)
			if k >= c.Static {
				al[k] = c03Copy(pts[k])
				c03Expect(r, "ExpandedMultiscalarMulVartime(receiver-is-a-dynamic-point)", al[k].ExpandedMultiscalarMulVartime(scs[:c.Static], eps, scs[c.Static:], al[c.Static:]), want)
			}
		}
	}

	// operands untouched (all of them for small n, a sample otherwise)
	r.Eval(1)
	step := 1
	if n > 64 {
		step = n / 16
	}
	for i := 0; i < n; i += step {
		if !bytes.Equal(c03Enc(pts[i]), rps[i].Encode()) || !bytes.Equal(c03ScalarBytes(scs[i]), c.Terms[i].S) {
			r.Fail("EdwardsPoint.MultiscalarMul*:operand-modified", "i=%d", i)
		}
	}
	return r.Result()
}

func c03NClass(n int) string {
	switch {
	case h.C03IsThresholdN(n) || n <= 3 || n == 8 || n == 20:
		return fmt.Sprint(n)
	case n <= 64:
		return "4..64"
	}
	return "other"
}

func TestC03MSMSmall(t *testing.T) {
	h.Run(t, func(t *rapid.T) c03MSMCase { return c03GenMSM(t, false) }, c03CheckMSM)
}

func TestC03MSMLarge(t *testing.T) {
	h.Run(t, func(t *rapid.T) c03MSMCase { return c03GenMSM(t, true) }, c03CheckMSM)
}
