//go:build verif

package curve

// C11 — RistrettoPoint.SetRandom(nil): "If rng is nil, crypto/rand.Reader will
// be used": two calls give different valid group elements.

import (
	"bytes"
	"testing"

	h "verifh"
	ref "verifref"
)

type c11NilCase struct{ V int }

func c11CheckNil(c c11NilCase) h.Result {
	r := h.NewR().NT(true).Class("SetRandom(nil)").Eval(3)
	var p, q RistrettoPoint
	_, e1 := p.SetRandom(nil)
	_, e2 := q.SetRandom(nil)
	if e1 != nil || e2 != nil {
		return r.Fail("RistrettoPoint.SetRandom(nil):error", "%v %v", e1, e2).Result()
	}
	pb, _ := p.MarshalBinary()
	qb, _ := q.MarshalBinary()
	if bytes.Equal(pb, qb) || bytes.Equal(pb, make([]byte, 32)) {
		r.Fail("RistrettoPoint.SetRandom(nil):not-random", "%x %x", pb, qb)
	}
	for _, b := range [][]byte{pb, qb} {
		if _, ok := ref.RistDecode(b); !ok {
			r.Fail("RistrettoPoint.SetRandom(nil):invalid-element", "%x", b)
		}
	}
	return r.Result()
}

func TestC11NilEntropy(t *testing.T) { h.RunList(t, []c11NilCase{{0}}, c11CheckNil) }
