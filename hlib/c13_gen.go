package verifh

// Generators for C13 (Merlin/STROBE operation histories); the length
// catalogue and the compact data description are reusable by other transcript
// based properties (sr25519).

import (
	"pgregory.net/rapid"
)

// C13Rate is the STROBE-128/1600 rate (bytes absorbed per permutation).
const C13Rate = 166

// C13Data describes a byte string compactly so that histories with long
// messages stay small in replay files: N bytes of content selected by M
// (0 zeros, 1 0xff, 2 pseudo-random from S, 3 printable ASCII from S,
// 4 counter starting at S).  Bytes() is a pure function of the value.
type C13Data struct {
	N int    `json:"n"`
	M int    `json:"m,omitempty"`
	S uint64 `json:"s,omitempty"`
}

// Bytes materialises the described string (always a fresh slice).
func (d C13Data) Bytes() []byte {
	n := d.N
	if n < 0 {
		n = 0
	}
	b := make([]byte, n)
	switch d.M {
	case 0:
	case 1:
		for i := range b {
			b[i] = 0xff
		}
	case 3:
		copy(b, Expand(d.S, n))
		for i := range b {
			b[i] = 0x20 + b[i]%95
		}
	case 4:
		for i := range b {
			b[i] = byte(d.S) + byte(i)
		}
	default:
		copy(b, Expand(d.S, n))
	}
	return b
}

// C13HugeLens are lengths whose 32-bit little-endian encoding needs more than
// 16 bits (and their neighbours): the only ones on which a truncated length
// prefix is visible.
var C13HugeLens = []int{65535, 65536, 65537, 65536 + 166, 66000, 131072}

var c13EdgeLens = []int{0, 0, 1, 1, 2, 3,
	160, 161, 162, 163, 164, 165, 166, 167, 168, 169, 170,
	328, 329, 330, 331, 332, 333, 334, 335, 336}

// C13Len draws a label/data length: concentrated on 0,1,2,3, 160..170,
// 328..336 (one and two rate blocks with every offset the 2 framing bytes
// and the 4-byte length prefix can introduce), small, uniform <= 700, or
// (3%) up to about 25 blocks.
// With huge set, 4% one of C13HugeLens (callers ration these).
func C13Len(t *rapid.T, label string, huge bool) (int, string) {
	k := rapid.IntRange(0, 99).Draw(t, label+"_lk")
	switch {
	case huge && k < 4:
		return rapid.SampledFrom(C13HugeLens).Draw(t, label+"_lh"), "huge"
	case k < 50:
		return rapid.SampledFrom(c13EdgeLens).Draw(t, label+"_le"), "edge"
	case k < 70:
		return rapid.IntRange(0, 40).Draw(t, label+"_ls"), "small"
	case k < 97:
		return rapid.IntRange(0, 700).Draw(t, label+"_lu"), "uniform"
	default:
		// a few dozen blocks: sizes at which an implementation might switch to
		// a bulk path
		if rapid.Bool().Draw(t, label+"_lmk") {
			return rapid.SampledFrom([]int{1023, 1024, 1025, 2047, 2048, 2049, 4096, 4097}).Draw(t, label+"_lm"), "mid"
		}
		return rapid.IntRange(701, 4200).Draw(t, label+"_lm"), "mid"
	}
}

// C13Content draws the content mode of a string of n bytes.
func C13Content(t *rapid.T, label string, n int) C13Data {
	d := C13Data{N: n}
	if n == 0 {
		return d
	}
	switch k := rapid.IntRange(0, 9).Draw(t, label+"_ck"); {
	case k == 0:
		d.M = 0
	case k == 1:
		d.M = 1
	case k == 2:
		d.M, d.S = 3, rapid.Uint64().Draw(t, label+"_cs")
	case k == 3:
		d.M, d.S = 4, uint64(rapid.IntRange(0, 255).Draw(t, label+"_cc"))
	default:
		d.M, d.S = 2, rapid.Uint64().Draw(t, label+"_cs")
	}
	return d
}

// C13Pos tracks the cursor of a STROBE object inside the current rate block
// by plain length arithmetic (generator side only: it lets the generator aim
// a label or message length at a block boundary; the check never uses it).
type C13Pos struct{ P int }

// Absorb advances over n data bytes.
func (p *C13Pos) Absorb(n int) { p.P = (p.P + n) % C13Rate }

// Begin advances over the two framing bytes of an operation; forced says the
// operation carries the C flag (permutation forced unless already at 0).
func (p *C13Pos) Begin(forced bool) {
	p.Absorb(2)
	if forced {
		p.P = 0
	}
}

// C13AimLen returns a length n such that (pos + n) mod 166 == target mod 166,
// plus extra whole blocks (0..2).
func C13AimLen(t *rapid.T, label string, pos, target int) int {
	n := ((target-pos)%C13Rate + C13Rate) % C13Rate
	return n + C13Rate*rapid.SampledFrom([]int{0, 0, 0, 1, 1, 2}).Draw(t, label+"_ab")
}
