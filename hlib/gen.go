package verifh

import (
	"encoding/binary"
	"math/big"

	"pgregory.net/rapid"
	ref "verifref"
)

// Expand deterministically stretches a 64-bit value into n pseudo-random bytes
// (splitmix64).  All randomness still comes from rapid: the seed is drawn
// from it, so a case is a pure function of rapid's choices.
func Expand(seed uint64, n int) []byte {
	out := make([]byte, 0, n+8)
	x := seed
	for len(out) < n {
		x += 0x9e3779b97f4a7c15
		z := x
		z = (z ^ (z >> 30)) * 0xbf58476d1ce4e5b9
		z = (z ^ (z >> 27)) * 0x94d049bb133111eb
		z ^= z >> 31
		var b [8]byte
		binary.LittleEndian.PutUint64(b[:], z)
		out = append(out, b[:]...)
	}
	return out[:n]
}

// UniformBytes draws n uniformly distributed bytes.
func UniformBytes(t *rapid.T, n int, label string) []byte {
	seed := rapid.Uint64().Draw(t, label+"_seed")
	return Expand(seed, n)
}

func pow2(k uint) *big.Int { return new(big.Int).Lsh(big.NewInt(1), k) }

func le32(x *big.Int) []byte {
	m := new(big.Int).And(x, new(big.Int).Sub(pow2(256), big.NewInt(1)))
	return ref.ToLE(m, 32)
}

// Int256 draws a 256-bit integer from a boundary-heavy catalogue together with
// the name of the class it came from.  The value is in [0, 2^256).
func Int256(t *rapid.T, label string) (*big.Int, string) {
	cls := rapid.IntRange(0, 17).Draw(t, label+"_cls")
	one := big.NewInt(1)
	switch cls {
	case 16: // byte-wise comparison probe against L (or a small multiple of it)
		k := rapid.SampledFrom([]int64{1, 1, 1, 2, 8}).Draw(t, label+"_bk")
		return ref.FromLE(BytewiseProbe(t, label, new(big.Int).Mul(ref.L, big.NewInt(k)))), "bytewise-kL"
	case 17: // ... against p = 2^255-19
		return ref.FromLE(BytewiseProbe(t, label, ref.P)), "bytewise-p"
	case 0: // tiny
		return big.NewInt(int64(rapid.SampledFrom([]int{0, 1, 2, 3, 7, 8, 9, 15, 16, 17, 255, 256}).Draw(t, label+"_tiny"))), "tiny"
	case 1: // k*L + e
		k := rapid.IntRange(0, 15).Draw(t, label+"_k")
		e := rapid.IntRange(-3, 3).Draw(t, label+"_e")
		v := new(big.Int).Mul(big.NewInt(int64(k)), ref.L)
		v.Add(v, big.NewInt(int64(e)))
		if v.Sign() < 0 {
			v.SetInt64(0)
		}
		if v.BitLen() > 256 {
			v.Sub(pow2(256), one)
		}
		return v, "kL+e"
	case 2: // 2^k +- e
		k := rapid.SampledFrom([]uint{51, 52, 63, 64, 65, 116, 127, 128, 129, 191, 192, 193, 232, 247, 248, 251, 252, 253, 254, 255}).Draw(t, label+"_p")
		e := rapid.IntRange(-3, 3).Draw(t, label+"_e")
		v := pow2(k)
		v.Add(v, big.NewInt(int64(e)))
		return v, "2^k+e"
	case 3: // 2^k - 1 for any k
		k := rapid.UintRange(1, 256).Draw(t, label+"_k")
		return new(big.Int).Sub(pow2(k), one), "2^k-1"
	case 4: // top of range
		e := rapid.IntRange(0, 4).Draw(t, label+"_e")
		top := rapid.SampledFrom([]uint{255, 256}).Draw(t, label+"_top")
		return new(big.Int).Sub(pow2(top), big.NewInt(int64(1+e))), "top"
	case 5: // nibble / byte patterns (carry chains in recodings)
		pat := rapid.SampledFrom([]byte{0x77, 0x88, 0xff, 0x78, 0x87, 0x7f, 0x80, 0xf8, 0x8f, 0x55, 0xaa, 0x0f, 0xf0, 0x08, 0x07, 0x10}).Draw(t, label+"_pat")
		b := make([]byte, 32)
		for i := range b {
			b[i] = pat
		}
		n := rapid.IntRange(1, 32).Draw(t, label+"_n")
		for i := n; i < 32; i++ {
			b[i] = 0
		}
		if rapid.Bool().Draw(t, label+"_clr") {
			b[31] &= 0x7f
		}
		return ref.FromLE(b), "pattern"
	case 6: // single / few bits
		v := new(big.Int)
		n := rapid.IntRange(1, 4).Draw(t, label+"_n")
		for i := 0; i < n; i++ {
			v.SetBit(v, rapid.IntRange(0, 255).Draw(t, label+"_bit"), 1)
		}
		return v, "sparse"
	case 7: // dense: all ones with a few bits cleared
		v := new(big.Int).Sub(pow2(256), one)
		n := rapid.IntRange(1, 4).Draw(t, label+"_n")
		for i := 0; i < n; i++ {
			v.SetBit(v, rapid.IntRange(0, 255).Draw(t, label+"_bit"), 0)
		}
		return v, "dense"
	case 8: // bits around 64-bit word seams
		v := new(big.Int).SetBytes(UniformBytes(t, 32, label))
		seam := rapid.SampledFrom([]int{64, 128, 192}).Draw(t, label+"_seam")
		val := rapid.SampledFrom([]uint64{0, 0xffff, 0xff00, 0x00ff, 0x8000, 0x7fff, 0x0180, 0xfe7f}).Draw(t, label+"_sv")
		for i := 0; i < 16; i++ {
			v.SetBit(v, seam-8+i, uint(val>>uint(i))&1)
		}
		return v, "seam"
	case 9: // all-ones 52-bit / 29-bit limbs
		w := rapid.SampledFrom([]int{52, 29, 51, 26, 25}).Draw(t, label+"_w")
		idx := rapid.IntRange(0, 255/w).Draw(t, label+"_i")
		v := new(big.Int).SetBytes(UniformBytes(t, 32, label))
		full := rapid.Bool().Draw(t, label+"_full")
		for i := 0; i < w && idx*w+i < 256; i++ {
			bit := uint(1)
			if !full {
				bit = 0
			}
			v.SetBit(v, idx*w+i, bit)
		}
		return v, "limb"
	case 10: // near L from random multiples: q*L + small with q large
		q := new(big.Int).SetBytes(UniformBytes(t, 1, label))
		v := new(big.Int).Mul(q, ref.L)
		v.Add(v, big.NewInt(int64(rapid.IntRange(-2, 2).Draw(t, label+"_e"))))
		v.Mod(v, pow2(256))
		return v, "qL+e"
	case 11: // uniform reduced
		v := new(big.Int).SetBytes(UniformBytes(t, 40, label))
		return v.Mod(v, ref.L), "reduced"
	case 12: // uniform 253..255-bit
		v := new(big.Int).SetBytes(UniformBytes(t, 32, label))
		bits := rapid.UintRange(252, 256).Draw(t, label+"_bits")
		v.Mod(v, pow2(bits))
		v.SetBit(v, int(bits)-1, 1)
		return v, "highbit"
	case 13: // small-bit-length uniform
		bits := rapid.UintRange(1, 256).Draw(t, label+"_bits")
		v := new(big.Int).SetBytes(UniformBytes(t, 32, label))
		return v.Mod(v, pow2(bits)), "anybits"
	default: // uniform 256-bit
		return new(big.Int).SetBytes(UniformBytes(t, 32, label)), "uniform"
	}
}

// BytewiseProbe draws a 32-byte little-endian string that agrees with the
// bytes of bound above a drawn index i, differs from it at index i (one less,
// one more, any smaller, any larger value - whatever exists), and is filled
// below i with 0x00, 0xff, the bound's own bytes or uniform bytes.  A
// comparison with the bound that goes wrong at one byte position (a loop that
// stops early or skips an index, a lexicographic test with one inequality the
// wrong way round) decides such a string wrongly; a uniform sampler and a
// "bound +- e" catalogue only ever exercise the lowest byte.  With i = 32 the
// string is the bound itself.  The value may lie on either side of the bound.
func BytewiseProbe(t *rapid.T, label string, bound *big.Int) []byte {
	b := le32(bound)
	i := rapid.IntRange(0, 32).Draw(t, label+"_bwi")
	if i == 32 {
		return b
	}
	cur := int(b[i])
	var opts []int
	if cur > 0 {
		opts = append(opts, cur-1, rapid.IntRange(0, cur-1).Draw(t, label+"_bwlo"))
	}
	if cur < 255 {
		opts = append(opts, cur+1, rapid.IntRange(cur+1, 255).Draw(t, label+"_bwhi"))
	}
	b[i] = byte(opts[rapid.IntRange(0, len(opts)-1).Draw(t, label+"_bwo")])
	fill := rapid.IntRange(0, 3).Draw(t, label+"_bwf")
	for j := 0; j < i; j++ {
		switch fill {
		case 0:
			b[j] = 0
		case 1:
			b[j] = 0xff
		case 3:
			b[j] = rapid.Byte().Draw(t, label+"_bwr")
		}
	}
	if i > 0 && rapid.Bool().Draw(t, label+"_bw0") { // the lowest byte on its own: parity / the 0xed..0xff window
		b[0] = rapid.Byte().Draw(t, label+"_bwb0")
	}
	return b
}

// Scalar255 draws 32 bytes whose value is < 2^255 (the Scalar invariant),
// possibly unreduced, plus its class.
func Scalar255(t *rapid.T, label string) ([]byte, string) {
	v, cls := Int256(t, label)
	b := le32(v)
	b[31] &= 0x7f
	return b, cls
}

// Bytes256 draws 32 bytes (any 256-bit value) plus its class.
func Bytes256(t *rapid.T, label string) ([]byte, string) {
	v, cls := Int256(t, label)
	return le32(v), cls
}

// ReducedScalar draws a canonical scalar (value < L).
func ReducedScalar(t *rapid.T, label string) ([]byte, string) {
	v, cls := Int256(t, label)
	return ref.SEncode(v), cls
}

// HostileLen draws a byte-string length around a nominal size n.
func HostileLen(t *rapid.T, n int, label string) int {
	c := rapid.IntRange(0, 9).Draw(t, label+"_lc")
	switch c {
	case 0:
		return 0
	case 1:
		return 1
	case 2:
		if n > 0 {
			return n - 1
		}
		return 0
	case 3:
		return n + 1
	case 4:
		return 2 * n
	case 5:
		return rapid.IntRange(0, 3*n+3).Draw(t, label+"_l")
	default:
		return n
	}
}

// MsgLen draws message lengths concentrated on hash-block and STROBE-rate
// boundaries.
func MsgLen(t *rapid.T, max int, label string) int {
	edges := []int{0, 1, 2, 3, 31, 32, 33, 47, 48, 63, 64, 65, 111, 112, 113, 127, 128, 129, 135, 136, 137, 160, 161, 162, 163, 164, 165, 166, 167, 168, 169, 170, 255, 256, 257, 328, 329, 330, 331, 332, 333, 334, 335, 336, 498, 499, 500}
	if rapid.IntRange(0, 2).Draw(t, label+"_lk") == 0 {
		return rapid.IntRange(0, max).Draw(t, label+"_l")
	}
	for i := 0; i < 8; i++ {
		e := rapid.SampledFrom(edges).Draw(t, label+"_le")
		if e <= max {
			return e
		}
	}
	return 0
}

// Msg draws a message of a boundary-heavy length.
func Msg(t *rapid.T, max int, label string) []byte {
	n := MsgLen(t, max, label)
	k := rapid.IntRange(0, 3).Draw(t, label+"_mk")
	b := make([]byte, n)
	switch k {
	case 0:
	case 1:
		for i := range b {
			b[i] = 0xff
		}
	default:
		copy(b, Expand(rapid.Uint64().Draw(t, label+"_ms"), n))
	}
	return b
}
