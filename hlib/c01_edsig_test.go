package verifh

import (
	"bytes"
	"strings"
	"testing"

	"pgregory.net/rapid"
	ref "verifref"
)

// Every listed encoding decodes to the point, exactly the first is canonical,
// and the small-order table has 8 canonical + 6 non-canonical strings which are
// exactly the small-order members of AllNonCanonicalPointStrings.
func TestC01Encodings(t *testing.T) {
	encs, idx := EdSmallOrderEncodings()
	if len(encs) != 14 {
		t.Fatalf("small-order encodings: %d", len(encs))
	}
	nonc := 0
	for n, e := range encs {
		di := ref.Decode(e)
		if !di.OK || !di.P.Equal(ref.Torsion8()[idx[n]]) {
			t.Fatalf("encoding %x does not decode to T[%d]", e, idx[n])
		}
		if !di.Canonical {
			nonc++
			found := false
			for _, s := range AllNonCanonicalPointStrings() {
				found = found || bytes.Equal(s, e)
			}
			if !found {
				t.Fatalf("%x missing from the non-canonical list", e)
			}
		} else if !bytes.Equal(e, di.P.Encode()) {
			t.Fatalf("canonical mismatch %x", e)
		}
	}
	if nonc != 6 {
		t.Fatalf("non-canonical small-order encodings: %d", nonc)
	}
	small := 0
	for _, s := range AllNonCanonicalPointStrings() {
		if ref.IsSmallOrder(ref.Decode(s).P) {
			small++
		}
	}
	if small != 6 {
		t.Fatalf("small-order strings in the non-canonical list: %d", small)
	}
}

// The generator's constructions behave as designed: unmodified constructed
// signatures satisfy the cofactored reference equation, grind finds
// cofactorless-valid signatures with torsion, and every class shows up.
func TestC01GenEdCase(t *testing.T) {
	seen := map[string]int{}
	rapid.Check(t, func(rt *rapid.T) {
		c := GenEdCase(rt)
		if len(c.PK) != 32 || len(c.Ctx) > 255 || (c.Ph && len(c.Msg) != 64) {
			rt.Fatalf("precondition broken: %+v", c)
		}
		seen["key:"+c.KeyCls]++
		seen["sig:"+c.SigCls]++
		seen["S:"+c.SCls]++
		seen["mod:"+c.ModCls]++
		constructed := c.ModCls == "none" && strings.HasPrefix(c.SCls, "valid") &&
			!strings.HasPrefix(c.KeyCls, "bytes") && !strings.HasPrefix(c.SigCls, "random")
		if !constructed {
			return
		}
		f := ref.EdAnalyse(c.Variant(), c.Ctx, c.PK, c.Msg, c.Sig)
		if !f.Decide(ref.EdFlagsZIP215) {
			rt.Fatalf("constructed signature is not ZIP-215 valid: %+v", c)
		}
		seen["constructed-valid"]++
		if c.SigCls == "grind" {
			if !f.Cofactorless {
				rt.Fatalf("grind result not cofactorless-valid: %+v", c)
			}
			seen["grind-cofactorless-valid"]++
		}
		if f.Cofactorless {
			seen["cofactorless-valid"]++
		} else {
			seen["cofactored-only"]++
		}
	})
	t.Logf("%v", seen)
	for _, k := range []string{"constructed-valid", "cofactorless-valid", "cofactored-only"} {
		if seen[k] == 0 {
			t.Fatalf("class %s never generated: %v", k, seen)
		}
	}
}

func TestC01GenEdPanicCase(t *testing.T) {
	rapid.Check(t, func(rt *rapid.T) {
		c := GenEdPanicCase(rt)
		if len(c.PK) == 32 && len(c.Ctx) <= 255 && !(c.Ph && len(c.Msg) != 64) {
			rt.Fatalf("no precondition violated: %+v", c)
		}
	})
}
