module verifh

go 1.23

toolchain go1.23.5

require (
	pgregory.net/rapid v1.3.0
	verifref v0.0.0
)

replace verifref => /verif/ref
