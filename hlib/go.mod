module verifh

go 1.23

toolchain go1.23.5

require (
	golang.org/x/crypto v0.0.0-20220321153916-2c7772ba3064
	pgregory.net/rapid v1.3.0
	verifref v0.0.0
)

require golang.org/x/sys v0.0.0-20220325203850-36772127a21f // indirect

replace verifref => /verif/ref
