package verifh

import (
	"math/big"
	"testing"

	ref "verifref"
)

func TestC16SpecialRoots(t *testing.T) {
	r := c16SpecialRoots()
	one := big.NewInt(1)
	if ref.SAdd(ref.SMul(r[0], r[0]), one).Sign() != 0 || ref.SAdd(ref.SMul(r[1], r[1]), one).Sign() != 0 {
		t.Fatal("sqrt(-1) mod L")
	}
	for _, w := range r[2:4] {
		if ref.SAdd(ref.SAdd(ref.SMul(w, w), w), one).Sign() != 0 || w.Cmp(one) == 0 {
			t.Fatal("cube root of unity mod L")
		}
	}
}

func TestC16FromCF(t *testing.T) {
	// [0; 2] = 1/2, [0; 1, 1] = 1/2, [0; 3, 2] = 2/7
	half := new(big.Int).Rsh(new(big.Int).Add(ref.L, big.NewInt(1)), 1) // round(L/2), L odd
	if c16FromCF([]*big.Int{big.NewInt(2)}).Cmp(half) != 0 || c16FromCF([]*big.Int{big.NewInt(1), big.NewInt(1)}).Cmp(half) != 0 {
		t.Fatal("1/2")
	}
	got := c16FromCF([]*big.Int{big.NewInt(3), big.NewInt(2)})
	want := new(big.Int).Mul(ref.L, big.NewInt(2))
	want.Mul(want, big.NewInt(2)).Add(want, big.NewInt(7)).Div(want, big.NewInt(14))
	if got.Cmp(want) != 0 {
		t.Fatal("2/7")
	}
}
