package verifh

// C01 — generator of Ed25519 verification inputs built *by construction* with
// the reference arithmetic (verifref), so that keys and signatures with
// torsion components, non-canonical encodings and boundary S values can be
// valid under exactly the flag sets that admit them.
//
//	A = [a]B + T_j        R = [r]B + T_i        S = r + k*a  (mod L)
//	k = SHA-512(dom2 || R-bytes-as-sent || A-bytes-as-sent || M) mod L
//
// so that [S]B - [k]A - R = -T_{(k*j+i) mod 8}: the cofactored equation
// always holds, the cofactorless one iff k*j + i = 0 (mod 8).

import (
	"encoding/binary"
	"hash/fnv"
	"math/big"

	"pgregory.net/rapid"
	ref "verifref"
)

// EdCase is a self-contained Ed25519 verification input.  Ph selects
// Ed25519ph; otherwise a non-empty Ctx selects Ed25519ctx and an empty one
// plain Ed25519 (the mapping the library documents for Options).
type EdCase struct {
	Ph  bool `json:"ph"`
	Ctx Hex  `json:"ctx"`
	PK  Hex  `json:"pk"`
	Msg Hex  `json:"msg"`
	Sig Hex  `json:"sig"`
	// Labels describing how the case was built (informational: class
	// histogram and the non-trivial rule; never used to compute expectations).
	KeyCls string `json:"key_cls"`
	SigCls string `json:"sig_cls"`
	SCls   string `json:"s_cls"`
	ModCls string `json:"mod_cls"`
}

// Variant maps the case to the reference variant.
func (c EdCase) Variant() ref.EdVariant {
	switch {
	case c.Ph:
		return ref.EdPh
	case len(c.Ctx) > 0:
		return ref.EdCtx
	}
	return ref.EdPure
}

// EdPointEncodings returns every 32-byte string that decodes (permissively,
// library/ZIP-215 style) to p: the canonical encoding first, then y+p when
// that still fits 255 bits, each with both sign bits when x = 0.
func EdPointEncodings(p ref.Point) [][]byte {
	ys := []*big.Int{p.Y}
	if yp := new(big.Int).Add(p.Y, ref.P); yp.BitLen() <= 255 {
		ys = append(ys, yp)
	}
	signs := []byte{byte(p.X.Bit(0))}
	if p.X.Sign() == 0 {
		signs = []byte{0, 1}
	}
	var out [][]byte
	for _, y := range ys {
		for _, s := range signs {
			b := ref.ToLE(y, 32)
			b[31] |= s << 7
			out = append(out, b)
		}
	}
	return out
}

// EdSmallOrderEncodings lists every encoding of every 8-torsion point
// (8 canonical + 6 non-canonical strings) with the torsion index.
func EdSmallOrderEncodings() (encs [][]byte, idx []int) {
	for j, tp := range ref.Torsion8() {
		for _, e := range EdPointEncodings(tp) {
			encs = append(encs, e)
			idx = append(idx, j)
		}
	}
	return
}

// edW draws an index with the given integer weights.  rapid's own integer
// generators are deliberately biased towards small values; class weights here
// are meant literally, so the choice is a mixed function of a drawn word.
func edW(t *rapid.T, label string, weights ...int) int {
	total := 0
	for _, w := range weights {
		total += w
	}
	hs := fnv.New64a()
	hs.Write([]byte(label))
	u := rapid.Uint64().Draw(t, label)
	x := int(binary.LittleEndian.Uint64(Expand(u^hs.Sum64(), 8)) % uint64(total))
	for i, w := range weights {
		if x < w {
			return i
		}
		x -= w
	}
	return len(weights) - 1
}

func edPickEncoding(t *rapid.T, p ref.Point, label string) ([]byte, bool) {
	encs := EdPointEncodings(p)
	if len(encs) == 1 || edW(t, label+"_canon", 1, 2) == 0 {
		return encs[0], false
	}
	k := edW(t, label+"_enc", make1(len(encs))...)
	return encs[k], k != 0
}

var (
	edO0 = new(big.Int).SetUint64(0x5812631a5cf5d3ed) // low 64-bit word of L
	edO1 = new(big.Int).SetUint64(0x14def9dea2f79cd6) // second word of L
)

// edScalar draws a secret/nonce scalar in [0, L): cheap small values, the
// boundary catalogue, values just below L that walk every word of the
// S < L comparison, and values that are short (so that S + L shares the top
// words of L).
func edScalar(t *rapid.T, label string) (*big.Int, string) {
	switch edW(t, label+"_k", 3, 1, 1, 1, 2) {
	case 0:
		return big.NewInt(int64(rapid.Uint32Range(1, 1<<20).Draw(t, label+"_small"))), "small"
	case 1: // L - d: in [2^252, L), the slow path of the minimality test
		var d *big.Int
		switch rapid.IntRange(0, 10).Draw(t, label+"_d") {
		case 0:
			d = big.NewInt(1)
		case 1:
			d = big.NewInt(2)
		case 2:
			d = new(big.Int).Sub(pow2(64), big.NewInt(1))
		case 3:
			d = pow2(64)
		case 4:
			d = new(big.Int).Add(pow2(64), big.NewInt(1))
		case 5:
			d = new(big.Int).Set(edO0)
		case 6:
			d = new(big.Int).Add(edO0, big.NewInt(1))
		case 7:
			d = new(big.Int).Sub(edO0, big.NewInt(1))
		case 8: // L - d = 2^252 + small
			d = new(big.Int).Sub(ref.L, pow2(252))
			d.Sub(d, big.NewInt(int64(rapid.IntRange(0, 3).Draw(t, label+"_e"))))
		case 9: // clear the low word: L - o0 - m*2^64
			d = new(big.Int).Mul(pow2(64), big.NewInt(int64(rapid.IntRange(0, 3).Draw(t, label+"_m"))))
			d.Add(d, edO0)
		default:
			d = new(big.Int).SetBytes(UniformBytes(t, 15, label+"_du"))
			d.Add(d, big.NewInt(1))
		}
		return new(big.Int).Sub(ref.L, d), "nearL"
	case 2: // short values
		bits := rapid.SampledFrom([]uint{1, 8, 63, 64, 65, 127, 128, 129, 191, 192, 193}).Draw(t, label+"_bits")
		v := new(big.Int).SetBytes(UniformBytes(t, 32, label+"_sh"))
		v.Mod(v, pow2(bits))
		if rapid.Bool().Draw(t, label+"_ones") {
			v.Sub(pow2(bits), big.NewInt(1))
		}
		return v, "short"
	case 3: // clamped secret scalar derived from a seed, as an honest signer has
		a, _ := ref.EdExpand(UniformBytes(t, 32, label+"_seed"))
		return ref.SMod(a), "clamped"
	default:
		b, cls := ReducedScalar(t, label+"_cat")
		return ref.FromLE(b), cls
	}
}

func edCtx(t *rapid.T, label string, minLen int) []byte {
	var n int
	switch rapid.IntRange(0, 3).Draw(t, label+"_lk") {
	case 0:
		n = rapid.SampledFrom([]int{0, 1, 2, 31, 32, 33, 127, 128, 253, 254, 255}).Draw(t, label+"_le")
	default:
		n = rapid.IntRange(0, 255).Draw(t, label+"_l")
	}
	if n < minLen {
		n = minLen
	}
	b := Expand(rapid.Uint64().Draw(t, label+"_s"), n)
	if n > 0 && rapid.IntRange(0, 7).Draw(t, label+"_z") == 0 {
		for i := range b {
			b[i] = 0
		}
	}
	return b
}

func edFlipBit(t *rapid.T, b []byte, lo, hi int, label string) []byte {
	out := append([]byte(nil), b...)
	bit := rapid.IntRange(lo*8, hi*8-1).Draw(t, label)
	out[bit/8] ^= 1 << uint(bit%8)
	return out
}

// GenEdCase draws a verification input.  The result always satisfies the
// documented preconditions (32-byte key, 64-byte message when Ph, context of
// at most 255 bytes); see GenEdPanicCase for the other side.
func GenEdCase(t *rapid.T) EdCase {
	var c EdCase
	ts := ref.Torsion8()

	// ---- variant, context, message (as signed)
	xv := edW(t, "xv", 7, 1) == 1 // verify under another variant than signed
	variant := edW(t, "variant", 4, 3, 3)
	var ctx []byte
	switch variant {
	case 1:
		ctx = edCtx(t, "ctx", 1)
	case 2:
		ctx = edCtx(t, "ctx", 0)
	}
	var msg []byte
	if variant == 2 || xv {
		msg = Expand(rapid.Uint64().Draw(t, "msg64"), 64)
		switch rapid.IntRange(0, 7).Draw(t, "msg64k") {
		case 0:
			msg = make([]byte, 64)
		case 1:
			for i := range msg {
				msg[i] = 0xff
			}
		}
	} else {
		msg = Msg(t, 300, "msg")
	}
	sv := ref.EdPure
	switch variant {
	case 1:
		sv = ref.EdCtx
	case 2:
		sv = ref.EdPh
	}

	// ---- key
	var (
		a  = new(big.Int)
		j  int
		pk []byte
	)
	kc := []string{"honest", "mixed", "small", "bytes"}[edW(t, "keycls", 4, 3, 3, 1)]
	switch kc {
	case "honest":
		a, _ = edScalar(t, "a")
	case "mixed":
		a, _ = edScalar(t, "a")
		j = rapid.IntRange(1, 7).Draw(t, "j")
	case "small":
		j = rapid.IntRange(0, 7).Draw(t, "j")
	}
	if kc == "bytes" {
		var cls string
		pk, cls = GenPointBytes(t, "pk")
		c.KeyCls = "bytes:" + cls
		a, _ = edScalar(t, "a") // pretended secret: the signature cannot verify
	} else {
		if a.Sign() == 0 && kc != "small" {
			a.SetInt64(1)
		}
		A := ref.MulBase(a)
		if j != 0 {
			A = ref.Add(A, ts[j])
		}
		var nc bool
		pk, nc = edPickEncoding(t, A, "A")
		c.KeyCls = kc
		if nc {
			c.KeyCls += "/noncanon"
		}
	}

	// ---- signature
	sc := []string{"honest", "R+torsion", "smallR", "grind", "random"}[edW(t, "sigcls", 4, 3, 3, 2, 1)]
	var (
		r    = new(big.Int)
		i    int
		Renc []byte
		S    *big.Int
	)
	c.SigCls = sc
	switch sc {
	case "random":
		var cls string
		Renc, cls = GenPointBytes(t, "R")
		sb, _ := ReducedScalar(t, "S")
		S = ref.FromLE(sb)
		c.SigCls = "random:" + cls
	case "grind":
		// search (r, i) with k*j + i = 0 (mod 8): cofactorless-valid although
		// torsion is present.  With j = 0 this degenerates to an honest R.
		r, _ = edScalar(t, "r")
		Rb := ref.MulBase(r)
		found := false
		for round := 0; round < 6 && !found; round++ {
			for i = 0; i < 8; i++ {
				Rc := Rb
				if i != 0 {
					Rc = ref.Add(Rb, ts[i])
				}
				Renc = Rc.Encode()
				k := ref.EdChallenge(sv, ctx, Renc, pk, msg)
				k8 := int(new(big.Int).And(k, big.NewInt(7)).Int64())
				if (k8*j+i)%8 == 0 {
					found = true
					break
				}
			}
			if !found {
				r = ref.SAdd(r, big.NewInt(1))
				Rb = ref.Add(Rb, ref.Base)
			}
		}
		if !found {
			c.SigCls = "grind-failed"
			i = 0
			Renc = Rb.Encode()
		} else if i == 0 && j == 0 {
			c.SigCls = "honest"
		}
	default:
		switch sc {
		case "honest":
			r, _ = edScalar(t, "r")
		case "R+torsion":
			r, _ = edScalar(t, "r")
			i = rapid.IntRange(1, 7).Draw(t, "i")
		case "smallR":
			i = rapid.IntRange(0, 7).Draw(t, "i")
		}
		R := ref.MulBase(r)
		if i != 0 {
			R = ref.Add(R, ts[i])
		}
		var nc bool
		Renc, nc = edPickEncoding(t, R, "R")
		if nc {
			c.SigCls += "/noncanon"
		}
	}
	if S == nil {
		k := ref.EdChallenge(sv, ctx, Renc, pk, msg)
		S = ref.SAdd(r, ref.SMul(k, a))
	}

	// ---- S manipulation
	c.SCls = "valid"
	if S.Cmp(pow2(252)) >= 0 {
		c.SCls = "valid>=2^252"
	} else if S.BitLen() <= 192 {
		c.SCls = "valid-short"
	}
	switch edW(t, "smod", 13, 2, 2, 1, 1, 1) {
	case 1: // malleable: S + m*L
		m := rapid.IntRange(1, 15).Draw(t, "sm")
		v := new(big.Int).Mul(big.NewInt(int64(m)), ref.L)
		v.Add(v, S)
		if v.BitLen() <= 256 {
			S = v
			c.SCls = "S+mL"
			if m == 1 {
				c.SCls = "S+L"
			}
		}
	case 2: // constants
		consts := []*big.Int{
			big.NewInt(0), big.NewInt(1),
			new(big.Int).Sub(ref.L, big.NewInt(1)), new(big.Int).Set(ref.L), new(big.Int).Add(ref.L, big.NewInt(1)),
			new(big.Int).Mul(ref.L, big.NewInt(2)), new(big.Int).Mul(ref.L, big.NewInt(8)),
			new(big.Int).Sub(pow2(252), big.NewInt(1)), pow2(252),
			new(big.Int).Sub(pow2(253), big.NewInt(1)), pow2(253), pow2(254),
			new(big.Int).Sub(pow2(255), big.NewInt(1)), pow2(255), new(big.Int).Sub(pow2(256), big.NewInt(1)),
			// L with one word changed (walks the word-wise comparison)
			new(big.Int).Add(ref.L, pow2(64)), new(big.Int).Sub(ref.L, pow2(64)),
			new(big.Int).Add(new(big.Int).Sub(ref.L, pow2(64)), big.NewInt(1)),
			new(big.Int).Add(ref.L, pow2(128)), new(big.Int).Add(ref.L, pow2(192)),
			new(big.Int).Sub(ref.L, edO0), new(big.Int).Sub(new(big.Int).Sub(ref.L, edO0), big.NewInt(1)),
		}
		S = consts[rapid.IntRange(0, len(consts)-1).Draw(t, "sconst")]
		c.SCls = "const"
	case 3: // set high bits on an otherwise valid S
		bit := rapid.SampledFrom([]int{252, 253, 254, 255}).Draw(t, "sbit")
		S = new(big.Int).SetBit(S, bit, 1)
		c.SCls = "highbit"
	case 4: // off by one / few
		d := rapid.SampledFrom([]int64{-2, -1, 1, 2, 8}).Draw(t, "sd")
		S = ref.SAdd(S, big.NewInt(d))
		c.SCls = "S+-d"
	case 5:
		v := new(big.Int).SetBytes(UniformBytes(t, 32, "sbigv"))
		S = v.SetBit(v, rapid.SampledFrom([]int{253, 254, 255}).Draw(t, "sbigbit"), 1)
		c.SCls = "random>=2^253"
	}
	sig := append(append([]byte(nil), Renc...), ref.ToLE(S, 32)...)

	// ---- post-signing changes
	c.Ph, c.Ctx, c.PK, c.Msg = variant == 2, ctx, pk, msg
	c.ModCls = "none"
	switch edW(t, "forge", 1, 1, 1, 1, 1, 1, 1, 1, 16) {
	case 0:
		if len(msg) > 0 {
			c.Msg = edFlipBit(t, msg, 0, len(msg), "fbit")
			c.ModCls = "forged-msg-bit"
		}
	case 1:
		if !c.Ph && !xv {
			if len(msg) > 0 && rapid.Bool().Draw(t, "ftrunc") {
				c.Msg = append([]byte(nil), msg[:len(msg)-1]...)
			} else {
				c.Msg = append(append([]byte(nil), msg...), byte(rapid.IntRange(0, 255).Draw(t, "fbyte")))
			}
			c.ModCls = "forged-msg-len"
		}
	case 2:
		if len(ctx) > 0 {
			c.Ctx = edFlipBit(t, ctx, 0, len(ctx), "fbit")
			c.ModCls = "forged-ctx-bit"
		}
	case 3:
		if variant != 0 {
			if len(ctx) > 1 && rapid.Bool().Draw(t, "ftrunc") {
				c.Ctx = append([]byte(nil), ctx[:len(ctx)-1]...)
				c.ModCls = "forged-ctx-len"
			} else if len(ctx) < 255 {
				c.Ctx = append(append([]byte(nil), ctx...), byte(rapid.IntRange(0, 255).Draw(t, "fbyte")))
				c.ModCls = "forged-ctx-len"
			}
		}
	case 4:
		if edW(t, "fsign", 2, 1) == 1 { // -A instead of A
			c.PK = append([]byte(nil), pk...)
			c.PK[31] ^= 0x80
			c.ModCls = "forged-key-sign"
		} else {
			c.PK = edFlipBit(t, pk, 0, 32, "fbit")
			c.ModCls = "forged-key-bit"
		}
	case 5:
		if edW(t, "fsign", 2, 1) == 1 { // -R instead of R
			sig[31] ^= 0x80
			c.ModCls = "forged-R-sign"
		} else {
			sig = edFlipBit(t, sig, 0, 32, "fbit")
			c.ModCls = "forged-R-bit"
		}
	case 6:
		sig = edFlipBit(t, sig, 32, 64, "fbit")
		c.ModCls = "forged-S-bit"
	case 7: // a different, valid, key
		c.PK = ref.MulBase(ref.SAdd(a, big.NewInt(1))).Encode()
		c.ModCls = "other-key"
	}
	if xv {
		// msg is 64 bytes, so every variant is a legal way to verify it
		switch {
		case variant == 0: // pure -> ctx | ph | ph+ctx
			switch rapid.IntRange(0, 2).Draw(t, "xvk") {
			case 0:
				c.Ctx = edCtx(t, "xctx", 1)
			case 1:
				c.Ph = true
			default:
				c.Ph, c.Ctx = true, edCtx(t, "xctx", 1)
			}
		case variant == 1: // ctx -> pure | ph same ctx | ph no ctx
			switch rapid.IntRange(0, 2).Draw(t, "xvk") {
			case 0:
				c.Ctx = nil
			case 1:
				c.Ph = true
			default:
				c.Ph, c.Ctx = true, nil
			}
		default: // ph -> pure/ctx with the same context, or pure
			c.Ph = false
			if rapid.Bool().Draw(t, "xvk") {
				c.Ctx = nil
			}
		}
		c.ModCls += "+cross-variant"
	}
	if edW(t, "lenmod", 1, 14) == 0 {
		n := rapid.SampledFrom([]int{0, 1, 31, 32, 33, 63, 65, 96, 127, 128, 129, 192}).Draw(t, "siglen")
		if n < len(sig) {
			sig = sig[:n]
		} else {
			ext := make([]byte, n-len(sig))
			switch rapid.IntRange(0, 2).Draw(t, "ext") {
			case 1:
				copy(ext, Expand(rapid.Uint64().Draw(t, "exts"), len(ext)))
			case 2:
				for k := range ext {
					ext[k] = sig[k%64]
				}
			}
			sig = append(sig, ext...)
		}
		c.ModCls += "+siglen"
	}
	c.Sig = sig
	if c.Ctx == nil {
		c.Ctx = Hex{}
	}
	return c
}

// GenEdPanicCase draws a case that violates at least one documented
// precondition of VerifyWithOptions (key length, pre-hash length, context
// length); Viol names which.
func GenEdPanicCase(t *rapid.T) EdCase {
	c := EdCase{KeyCls: "n/a", SigCls: "n/a", SCls: "n/a"}
	c.PK = Expand(rapid.Uint64().Draw(t, "pk"), 32)
	if rapid.Bool().Draw(t, "pkvalid") {
		c.PK = ref.MulBase(big.NewInt(int64(rapid.IntRange(1, 1000).Draw(t, "a")))).Encode()
	}
	c.Sig = Expand(rapid.Uint64().Draw(t, "sig"), rapid.SampledFrom([]int{0, 63, 64, 64, 64, 65}).Draw(t, "siglen"))
	if len(c.Sig) == 64 {
		c.Sig[63] &= 0x0f
	}
	c.Ph = rapid.Bool().Draw(t, "ph")
	c.Msg = Msg(t, 200, "msg")
	if c.Ph {
		c.Msg = Expand(rapid.Uint64().Draw(t, "msg64"), 64)
	}
	c.Ctx = Hex(Expand(rapid.Uint64().Draw(t, "ctx"), rapid.SampledFrom([]int{0, 1, 16, 254, 255}).Draw(t, "ctxlen")))
	which := rapid.IntRange(1, 7).Draw(t, "which")
	c.ModCls = "panic"
	if which&1 != 0 {
		n := rapid.SampledFrom([]int{0, 1, 16, 31, 33, 48, 64, 65}).Draw(t, "pklen")
		c.PK = Hex(Expand(rapid.Uint64().Draw(t, "pk2"), n))
		c.ModCls += "/keylen"
	}
	if which&2 != 0 {
		c.Ph = true
		n := rapid.SampledFrom([]int{0, 1, 32, 63, 65, 127, 128, 129}).Draw(t, "phlen")
		c.Msg = Hex(Expand(rapid.Uint64().Draw(t, "msg2"), n))
		c.ModCls += "/phlen"
	}
	if which&4 != 0 {
		n := rapid.SampledFrom([]int{256, 257, 300, 511, 512, 1000, 65536}).Draw(t, "ctxlen2")
		c.Ctx = Hex(Expand(rapid.Uint64().Draw(t, "ctx2"), n))
		c.ModCls += "/ctxlen"
	}
	return c
}

func make1(n int) []int {
	w := make([]int, n)
	for i := range w {
		w[i] = 1
	}
	return w
}
