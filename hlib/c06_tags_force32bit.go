//go:build force32bit && !purego

package verifh

const diffBuildTags = "force32bit"
