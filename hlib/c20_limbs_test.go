package verifh

import (
	"reflect"
	"testing"
)

type c20tInner struct {
	_     [0]func()
	inner [3]uint32
}
type c20tOuter struct{ inner c20tInner }

func TestC20Limbs(t *testing.T) {
	want := []uint64{1, 2, 3}
	e := c20tInner{inner: [3]uint32{1, 2, 3}}
	for _, v := range []interface{}{e, &e, c20tOuter{inner: e}, [3]uint64{1, 2, 3}, []uint8{1, 2, 3}, &[3]uint16{1, 2, 3}} {
		if got := C20Limbs(v); !reflect.DeepEqual(got, want) {
			t.Fatalf("%T: %v", v, got)
		}
	}
	if got := C20Limbs([2][2]uint32{{1, 2}, {3, 4}}); !reflect.DeepEqual(got, []uint64{1, 2, 3, 4}) {
		t.Fatalf("nested: %v", got)
	}
	if p, _ := Catch(func() { C20Limbs(struct{ x int }{1}) }); !p {
		t.Fatal("struct without inner must panic")
	}
	if p, _ := Catch(func() { C20Limbs([1]int64{1}) }); !p {
		t.Fatal("signed ints must panic")
	}
}
