//go:build !purego && !force32bit

package verifh

const diffBuildTags = ""
