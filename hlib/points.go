package verifh

import (
	"math/big"

	"pgregory.net/rapid"
	ref "verifref"
)

// PointSpec describes an Edwards point by construction: [A]B + T[J], with A a
// little-endian integer (any size up to 32 bytes) and T the 8-torsion
// subgroup in verifref's numbering (T[J] = [J]T[1], T[1] of order 8).
type PointSpec struct {
	A   Hex    `json:"a"`
	J   int    `json:"j"`
	Cls string `json:"cls"`
}

// Ref computes the affine reference point.
func (ps PointSpec) Ref() ref.Point {
	p := ref.MulBase(ref.FromLE(ps.A))
	if ps.J%8 != 0 {
		p = ref.Add(p, ref.Torsion8()[ps.J%8])
	}
	return p
}

// Enc is the canonical encoding of the point (computed by the reference).
func (ps PointSpec) Enc() []byte { return ps.Ref().Encode() }

// AModL is A reduced mod L.
func (ps PointSpec) AModL() *big.Int { return ref.SMod(ref.FromLE(ps.A)) }

// IsIdentity / IsSmallOrder / IsTorsionFree by index arithmetic.
func (ps PointSpec) IsIdentity() bool    { return ps.AModL().Sign() == 0 && ps.J%8 == 0 }
func (ps PointSpec) IsSmallOrder() bool  { return ps.AModL().Sign() == 0 }
func (ps PointSpec) IsTorsionFree() bool { return ps.J%8 == 0 }

// GenPointSpec draws a point by construction.  cheap=true restricts A to small
// multiples (fast reference computation, for many-term cases).
func GenPointSpec(t *rapid.T, label string, cheap bool) PointSpec {
	k := rapid.IntRange(0, 9).Draw(t, label+"_pk")
	j := 0
	switch k {
	case 0:
		return PointSpec{A: Hex{0}, J: 0, Cls: "identity"}
	case 1:
		return PointSpec{A: Hex{0}, J: rapid.IntRange(1, 7).Draw(t, label+"_j"), Cls: "torsion"}
	case 2, 3, 4:
		j = rapid.IntRange(1, 7).Draw(t, label+"_j")
	}
	cls := "prime-order"
	if j != 0 {
		cls = "mixed-order"
	}
	if cheap {
		a := rapid.Uint32Range(1, 1<<20).Draw(t, label+"_a")
		return PointSpec{A: Hex(ref.ToLE(big.NewInt(int64(a)), 4)), J: j, Cls: cls + "/small"}
	}
	if rapid.IntRange(0, 3).Draw(t, label+"_sm") == 0 {
		a := rapid.Uint32Range(1, 1<<20).Draw(t, label+"_a")
		return PointSpec{A: Hex(ref.ToLE(big.NewInt(int64(a)), 4)), J: j, Cls: cls + "/small"}
	}
	a, _ := ReducedScalar(t, label+"_a")
	if ref.FromLE(a).Sign() == 0 {
		a[0] = 1
	}
	return PointSpec{A: a, J: j, Cls: cls}
}

// NonCanonicalYs lists all y values in [p, 2^255): p+k for k = 0..18.
func NonCanonicalYs() []*big.Int {
	var out []*big.Int
	for k := int64(0); k < 19; k++ {
		out = append(out, new(big.Int).Add(ref.P, big.NewInt(k)))
	}
	return out
}

// AllNonCanonicalPointStrings enumerates every 32-byte string that decodes
// (permissively) to a point but is not its canonical encoding: y >= p on the
// curve (both sign bits), and x = 0 with the sign bit set (y = 1, y = p-1,
// and their y+p aliases where they exist).
func AllNonCanonicalPointStrings() [][]byte {
	var out [][]byte
	for _, y := range NonCanonicalYs() {
		for s := byte(0); s < 2; s++ {
			b := ref.ToLE(y, 32)
			b[31] |= s << 7
			if di := ref.Decode(b); di.OK && !di.Canonical {
				out = append(out, b)
			}
		}
	}
	for _, y := range []*big.Int{big.NewInt(1), new(big.Int).Sub(ref.P, big.NewInt(1))} {
		b := ref.ToLE(y, 32)
		b[31] |= 0x80
		out = append(out, b)
	}
	return out
}

// GenPointBytes draws a 32-byte string from classes that matter to decoders.
func GenPointBytes(t *rapid.T, label string) ([]byte, string) {
	k := rapid.IntRange(0, 13).Draw(t, label+"_bk")
	switch k {
	case 13: // keeps the first i and the last j bytes of a SPECIAL string (a non-canonical encoding, a torsion point, p)
		// and replaces what lies between: a comparison with the special string that looks at its ends only (or skips
		// the middle) takes these for the special string itself
		var specials [][]byte
		specials = append(specials, AllNonCanonicalPointStrings()...)
		for _, tp := range ref.Torsion8() {
			specials = append(specials, tp.Encode())
		}
		specials = append(specials, le32(ref.P))
		b := append([]byte(nil), specials[rapid.IntRange(0, len(specials)-1).Draw(t, label+"_sp")]...)
		i := rapid.IntRange(0, 4).Draw(t, label+"_pre")
		j := rapid.IntRange(0, 4).Draw(t, label+"_suf")
		if i+j == 0 {
			i = 1
		}
		fill := rapid.IntRange(0, 2).Draw(t, label+"_fill")
		for x := i; x < 32-j; x++ {
			switch fill {
			case 0:
				b[x] = rapid.Byte().Draw(t, label+"_mid")
			case 1:
				b[x] ^= 0xff
			default:
				b[x] = b[(x+1)%32] ^ byte(x)
			}
		}
		if rapid.Bool().Draw(t, label+"_oncurve") { // walk a middle byte until y is on the curve (decoders go on)
			for n := 0; n < 64 && !ref.Decode(b).OK; n++ {
				b[15]++
			}
		}
		return b, "ends-of-special"
	case 12: // agrees with p above one byte position, differs there (byte-wise canonicity tests), either sign bit;
		// half of the time walked to the nearest y that is on the curve so that the decoders get past the square root
		b := BytewiseProbe(t, label, ref.P)
		if rapid.Bool().Draw(t, label+"_oncurve") {
			y := ref.FromLE(b)
			y.SetBit(y, 255, 0)
			for n := 0; n < 64; n++ {
				yy := ref.ToLE(y, 32)
				if ref.Decode(yy).OK {
					b = yy
					break
				}
				y.Add(y, big.NewInt(256)) // keeps byte 0, walks byte 1 upwards (and carries)
				y.SetBit(y, 255, 0)
			}
		}
		if rapid.Bool().Draw(t, label+"_s") {
			b[31] |= 0x80
		}
		return b, "bytewise-p"
	case 0, 1:
		ps := GenPointSpec(t, label, true)
		return ps.Enc(), "enc:" + ps.Cls
	case 2:
		ps := GenPointSpec(t, label, false)
		return ps.Enc(), "enc:" + ps.Cls
	case 3:
		l := AllNonCanonicalPointStrings()
		return append([]byte(nil), l[rapid.IntRange(0, len(l)-1).Draw(t, label+"_nc")]...), "noncanonical"
	case 4: // y >= p, any k (on curve or not), both signs
		y := NonCanonicalYs()[rapid.IntRange(0, 18).Draw(t, label+"_y")]
		b := ref.ToLE(y, 32)
		if rapid.Bool().Draw(t, label+"_s") {
			b[31] |= 0x80
		}
		return b, "y>=p"
	case 5: // small y
		y := big.NewInt(int64(rapid.IntRange(0, 40).Draw(t, label+"_y")))
		b := ref.ToLE(y, 32)
		if rapid.Bool().Draw(t, label+"_s") {
			b[31] |= 0x80
		}
		return b, "small-y"
	case 6: // p - small
		y := new(big.Int).Sub(ref.P, big.NewInt(int64(rapid.IntRange(1, 40).Draw(t, label+"_y"))))
		b := ref.ToLE(y, 32)
		if rapid.Bool().Draw(t, label+"_s") {
			b[31] |= 0x80
		}
		return b, "p-small"
	case 7: // torsion encodings, both signs
		tp := ref.Torsion8()[rapid.IntRange(0, 7).Draw(t, label+"_j")]
		b := tp.Encode()
		if rapid.Bool().Draw(t, label+"_flip") {
			b[31] ^= 0x80
		}
		return b, "torsion-enc"
	case 8: // mutate a valid encoding
		ps := GenPointSpec(t, label, true)
		b := ps.Enc()
		bit := rapid.IntRange(0, 255).Draw(t, label+"_bit")
		b[bit/8] ^= 1 << uint(bit%8)
		return b, "mutated"
	case 9:
		b, _ := Bytes256(t, label)
		return b, "catalogue"
	default:
		return UniformBytes(t, 32, label), "uniform"
	}
}
