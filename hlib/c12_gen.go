package verifh

// Generators and neutral case descriptions for C12 (sr25519 / schnorrkel).
// Everything here is plain data plus reference-side (verifref, stdlib,
// x/crypto hash) computations; nothing imports the library under test.

import (
	"crypto/sha256"
	"crypto/sha512"
	"encoding/json"
	"fmt"
	"io"
	"math/big"
	"sync"

	"golang.org/x/crypto/blake2b"
	"golang.org/x/crypto/sha3"
	"pgregory.net/rapid"
	ref "verifref"
)

// ---------------------------------------------------------------- keys

// C12Key says how a secret key is obtained.
//
//	uniform : Data = 32-byte mini secret key, ExpandUniform
//	ed25519 : Data = 32-byte mini secret key, ExpandEd25519
//	raw     : Data = 64 bytes, canonical scalar || nonce, SecretKey.UnmarshalBinary
//	edbytes : Data = 64 bytes, clamped Ed25519 scalar || nonce, NewSecretKeyFromEd25519Bytes
type C12Key struct {
	Kind string `json:"kind"`
	Data Hex    `json:"data"`
}

// Secret is the reference expansion of the key.
func (k C12Key) Secret() ref.SrSecret {
	switch k.Kind {
	case "uniform":
		return ref.SrExpandUniform(k.Data)
	case "ed25519":
		return ref.SrExpandEd25519(k.Data)
	case "raw":
		sk, ok := ref.SrSecretFromBytes(k.Data)
		if !ok {
			panic("verifh: C12Key raw: not a canonical secret key")
		}
		return sk
	case "edbytes":
		if !ref.SrEd25519BytesClamped(k.Data) {
			panic("verifh: C12Key edbytes: not clamped")
		}
		return ref.SrFromEd25519Bytes(k.Data)
	}
	panic("verifh: C12Key kind " + k.Kind)
}

func c12Fill(t *rapid.T, n int, label string) []byte {
	b := make([]byte, n)
	switch rapid.IntRange(0, 5).Draw(t, label+"_fk") {
	case 0:
	case 1:
		for i := range b {
			b[i] = 0xff
		}
	default:
		copy(b, UniformBytes(t, n, label))
	}
	return b
}

// C12GenKey draws a key description and a class label.
func C12GenKey(t *rapid.T, label string) (C12Key, string) {
	switch rapid.IntRange(0, 9).Draw(t, label+"_kk") {
	case 0, 1, 2, 3:
		return C12Key{Kind: "uniform", Data: c12Fill(t, 32, label+"_mini")}, "key:uniform"
	case 4, 5, 6:
		return C12Key{Kind: "ed25519", Data: c12Fill(t, 32, label+"_mini")}, "key:ed25519"
	case 7, 8:
		var s []byte
		cls := "key:raw"
		switch rapid.IntRange(0, 5).Draw(t, label+"_rk") {
		case 0:
			s, cls = make([]byte, 32), "key:raw-zero"
		case 1:
			s, cls = ref.ToLE(new(big.Int).Sub(ref.L, big.NewInt(int64(rapid.IntRange(1, 3).Draw(t, label+"_e")))), 32), "key:raw-L-e"
		case 2:
			s, cls = ref.ToLE(big.NewInt(int64(rapid.IntRange(1, 9).Draw(t, label+"_e"))), 32), "key:raw-tiny"
		default:
			s, _ = ReducedScalar(t, label+"_s")
		}
		return C12Key{Kind: "raw", Data: append(s, c12Fill(t, 32, label+"_nonce")...)}, cls
	default:
		var s []byte
		switch rapid.IntRange(0, 3).Draw(t, label+"_ek") {
		case 0: // smallest clamped scalar: 2^254
			s = make([]byte, 32)
		case 1: // largest
			s = make([]byte, 32)
			for i := range s {
				s[i] = 0xff
			}
		default:
			s = UniformBytes(t, 32, label+"_s")
		}
		s[0] &= 248
		s[31] &= 63
		s[31] |= 64
		return C12Key{Kind: "edbytes", Data: append(s, c12Fill(t, 32, label+"_nonce")...)}, "key:edbytes"
	}
}

// ---------------------------------------------------------------- messages

// C12Sources are the transcript sources: the message itself, a hash object
// of 256 or 512 bits, or an extendable-output function.
var C12Sources = []string{"bytes", "sha256", "sha512/256", "sha512", "blake2b-256", "blake2b-512", "shake128", "shake256"}

// C12Msg is a (context, message, source) triple.
type C12Msg struct {
	Ctx Hex    `json:"ctx"`
	Msg Hex    `json:"msg"`
	Src string `json:"src"`
}

// Committed returns the schnorrkel message label and the bytes committed
// under it (the message or its prehash), computed with stdlib / x/crypto
// one-shot functions.
func (m C12Msg) Committed() (string, []byte) {
	switch m.Src {
	case "bytes":
		return ref.SrLabelBytes, m.Msg
	case "sha256":
		d := sha256.Sum256(m.Msg)
		return ref.SrLabel256, d[:]
	case "sha512/256":
		d := sha512.Sum512_256(m.Msg)
		return ref.SrLabel256, d[:]
	case "sha512":
		d := sha512.Sum512(m.Msg)
		return ref.SrLabel512, d[:]
	case "blake2b-256":
		d := blake2b.Sum256(m.Msg)
		return ref.SrLabel256, d[:]
	case "blake2b-512":
		d := blake2b.Sum512(m.Msg)
		return ref.SrLabel512, d[:]
	case "shake128":
		d := make([]byte, 32)
		sha3.ShakeSum128(d, m.Msg)
		return ref.SrLabelXoF, d
	case "shake256":
		d := make([]byte, 32)
		sha3.ShakeSum256(d, m.Msg)
		return ref.SrLabelXoF, d
	}
	panic("verifh: C12Msg source " + m.Src)
}

// Transcript is the reference signing transcript of the triple.
func (m C12Msg) Transcript() *ref.Merlin {
	l, d := m.Committed()
	return ref.SrTranscript(m.Ctx, l, d)
}

// Same reports whether two triples are the same signing input.
func (m C12Msg) Same(o C12Msg) bool {
	return string(m.Ctx) == string(o.Ctx) && string(m.Msg) == string(o.Msg) && m.Src == o.Src
}

// C12GenMsg draws a (context, message, source) triple; lengths concentrate
// on the STROBE rate boundaries.
func C12GenMsg(t *rapid.T, label string) C12Msg {
	src := "bytes"
	if rapid.IntRange(0, 2).Draw(t, label+"_sk") != 0 {
		src = rapid.SampledFrom(C12Sources).Draw(t, label+"_src")
	}
	return C12Msg{Ctx: Msg(t, 400, label+"_ctx"), Msg: Msg(t, 500, label+"_msg"), Src: src}
}

// ---------------------------------------------------------------- entropy

// C12Entropy is the external randomness handed to Sign: exactly 32 bytes are
// available (a reader that wants more gets io.ErrUnexpectedEOF / io.EOF), in
// reads of at most Chunk bytes (0 = unlimited).
type C12Entropy struct {
	Bytes Hex `json:"bytes"`
	Chunk int `json:"chunk"`
	// EOFData: the read that delivers the last byte returns io.EOF together
	// with the data (allowed by the io.Reader contract; io.ReadFull copes).
	EOFData bool `json:"eof_data,omitempty"`
}

type c12Reader struct {
	b       []byte
	chunk   int
	eofData bool
}

func (r *c12Reader) Read(p []byte) (int, error) {
	if len(r.b) == 0 {
		return 0, io.EOF
	}
	n := len(p)
	if r.chunk > 0 && n > r.chunk {
		n = r.chunk
	}
	if n > len(r.b) {
		n = len(r.b)
	}
	copy(p, r.b[:n])
	r.b = r.b[n:]
	if r.eofData && len(r.b) == 0 {
		return n, io.EOF
	}
	return n, nil
}

// Reader returns a fresh reader over the bytes.
func (e C12Entropy) Reader() io.Reader {
	return &c12Reader{b: append([]byte(nil), e.Bytes...), chunk: e.Chunk, eofData: e.EOFData}
}

// C12GenEntropy draws 32 bytes of signing entropy.
func C12GenEntropy(t *rapid.T, label string) C12Entropy {
	return C12Entropy{Bytes: c12Fill(t, 32, label), Chunk: rapid.SampledFrom([]int{0, 0, 0, 1, 7, 31, 32}).Draw(t, label+"_chunk"),
		EOFData: rapid.IntRange(0, 3).Draw(t, label+"_eofdata") == 0}
}

// ---------------------------------------------------------------- signed entries and their mutations

// C12Mut is one alteration of an honestly signed (public key, transcript,
// signature) triple.
//
//	ctx-flip/ctx-append/ctx-trunc/ctx-shift   the context differs (shift: its last byte moves to the message)
//	msg-flip/msg-append/msg-trunc             the message differs
//	src                                       the same message through another source (Other = its name)
//	src-raw                                   the prehash of the message is presented as a "bytes" message
//	pk-other                                  public key of another key (Key)
//	pk-neg, pk-add                            -A, A + [N]B
//	sig-flip                                  signature bit N flipped
//	sig-unmark                                marker bit cleared
//	sig-s+L                                   s replaced by s + L (same residue, still below 2^255)
//	sig-s-add                                 s replaced by s + N mod L
//	sig-R-add                                 R replaced by R + [N]B
//	sig-R-bad                                 R replaced by a string that is not a ristretto255 encoding (Bytes)
//	sig-R-bad-forged                          the same, with s := k*a (would verify if the bad R counted as the identity)
//	sig-cancel                                s + N on this entry; the partner (C12Entry.Partner) carries s - N
//	zero-sig, zero-pk                         zero-value Signature / PublicKey object
//	failed-sig, failed-pk                     an object holding the honest value on which a failing
//	                                          UnmarshalBinary (of Bytes) was then called
type C12Mut struct {
	Kind  string `json:"kind"`
	N     int    `json:"n,omitempty"`
	Other string `json:"other,omitempty"`
	Key   C12Key `json:"key,omitempty"`
	Bytes Hex    `json:"bytes,omitempty"`
}

// C12Entry is an honestly signed triple plus an optional alteration.
type C12Entry struct {
	Key C12Key     `json:"key"`
	M   C12Msg     `json:"m"`
	Ent C12Entropy `json:"ent"`
	Mut *C12Mut    `json:"mut,omitempty"`
}

// C12Built is what the verifier is given for an entry, and what the
// reference expects.
type C12Built struct {
	Pub    []byte   // public key bytes handed to the verifier
	PubLog *big.Int // its discrete logarithm
	M      C12Msg   // the signing input handed to the verifier
	Sig    []byte   // signature bytes handed to the verifier
	// ZeroSig / ZeroPK: hand a zero-value object instead of decoding.
	// FailSig / FailPK: decode Sig / Pub, then call UnmarshalBinary(Bad) on the object (must fail and reset it).
	ZeroSig, ZeroPK, FailSig, FailPK bool
	Bad                              []byte
	Altered                          bool // the triple differs from the honest one
	Honest                           ref.SrSignature
	HonestPub                        []byte
	Secret                           ref.SrSecret
}

func c12FlipBit(b []byte, n int) []byte {
	out := append([]byte(nil), b...)
	if len(out) == 0 {
		return []byte{byte(n) | 1}
	}
	n = ((n % (8 * len(out))) + 8*len(out)) % (8 * len(out))
	out[n/8] ^= 1 << uint(n%8)
	return out
}

func c12Mark(r []byte, s *big.Int) []byte {
	out := append(append([]byte(nil), r...), ref.ToLE(s, 32)...)
	out[63] |= 0x80
	return out
}

// The honest part of Build is memoised (a pure function of key, signing
// input and entropy): one case builds the same entry once per alteration.
type c12Honest struct {
	sk  ref.SrSecret
	pub []byte
	sig ref.SrSignature
}

var (
	c12mu   sync.Mutex
	c12memo = map[string]c12Honest{}
)

func (e C12Entry) honest() c12Honest {
	kb, err := json.Marshal(struct {
		K C12Key
		M C12Msg
		E Hex
	}{e.Key, e.M, e.Ent.Bytes})
	if err != nil {
		panic(err)
	}
	key := string(kb)
	c12mu.Lock()
	hn, ok := c12memo[key]
	c12mu.Unlock()
	if ok {
		return hn
	}
	sk := e.Key.Secret()
	pub := sk.SrPublicKeyFast()
	hn = c12Honest{sk: sk, pub: pub, sig: ref.SrSignFast(sk, pub, e.M.Transcript(), e.Ent.Bytes)}
	c12mu.Lock()
	if len(c12memo) >= 64 {
		c12memo = map[string]c12Honest{}
	}
	c12memo[key] = hn
	c12mu.Unlock()
	return hn
}

// Build signs the entry with the reference (fixed-base fast path) and
// applies the alteration.
func (e C12Entry) Build() C12Built {
	hn := e.honest()
	sk, pub, hon := hn.sk, append([]byte(nil), hn.pub...), hn.sig
	hon.Bytes = append([]byte(nil), hon.Bytes...)
	b := C12Built{Pub: pub, PubLog: new(big.Int).Set(sk.Key), M: e.M, Sig: append([]byte(nil), hon.Bytes...),
		Honest: hon, HonestPub: pub, Secret: sk}
	if e.Mut == nil {
		return b
	}
	m := e.Mut
	b.Altered = true
	mm := C12Msg{Ctx: append(Hex(nil), e.M.Ctx...), Msg: append(Hex(nil), e.M.Msg...), Src: e.M.Src}
	switch m.Kind {
	case "ctx-flip":
		mm.Ctx = c12FlipBit(mm.Ctx, m.N)
	case "ctx-append":
		mm.Ctx = append(mm.Ctx, byte(m.N))
	case "ctx-trunc":
		if len(mm.Ctx) == 0 {
			mm.Ctx = Hex{0}
		} else {
			mm.Ctx = mm.Ctx[:len(mm.Ctx)-1]
		}
	case "ctx-shift":
		if len(mm.Ctx) == 0 {
			mm.Ctx = Hex{0}
		} else {
			last := mm.Ctx[len(mm.Ctx)-1]
			mm.Ctx = mm.Ctx[:len(mm.Ctx)-1]
			mm.Msg = append(Hex{last}, mm.Msg...)
		}
	case "msg-flip":
		mm.Msg = c12FlipBit(mm.Msg, m.N)
	case "msg-append":
		mm.Msg = append(mm.Msg, byte(m.N))
	case "msg-trunc":
		if len(mm.Msg) == 0 {
			mm.Msg = Hex{0}
		} else {
			mm.Msg = mm.Msg[:len(mm.Msg)-1]
		}
	case "src":
		mm.Src = m.Other
		b.Altered = m.Other != e.M.Src
	case "src-raw":
		_, d := e.M.Committed()
		b.Altered = e.M.Src != "bytes"
		mm.Src, mm.Msg = "bytes", append(Hex(nil), d...)
	case "pk-other":
		o := m.Key.Secret()
		b.Pub, b.PubLog = o.SrPublicKeyFast(), o.Key
		b.Altered = string(b.Pub) != string(pub)
	case "pk-neg":
		b.PubLog = ref.SNeg(sk.Key)
		b.Pub = ref.RistEncode(ref.C03MulBase(b.PubLog))
		b.Altered = string(b.Pub) != string(pub)
	case "pk-add":
		b.PubLog = ref.SAdd(sk.Key, big.NewInt(int64(m.N)))
		b.Pub = ref.RistEncode(ref.C03MulBase(b.PubLog))
		b.Altered = m.N != 0
	case "sig-flip":
		b.Sig = c12FlipBit(b.Sig, m.N)
	case "sig-unmark":
		b.Sig[63] &= 0x7f
	case "sig-s+L":
		b.Sig = c12Mark(hon.Bytes[:32], new(big.Int).Add(hon.S, ref.L))
	case "sig-s-add", "sig-cancel":
		b.Sig = c12Mark(hon.Bytes[:32], ref.SAdd(hon.S, big.NewInt(int64(m.N))))
		b.Altered = m.N != 0
	case "sig-R-add":
		b.Sig = c12Mark(ref.RistEncode(ref.C03MulBase(ref.SAdd(hon.Rw, big.NewInt(int64(m.N))))), hon.S)
		b.Altered = m.N != 0
	case "sig-R-bad":
		b.Sig = append(append([]byte(nil), m.Bytes...), hon.Bytes[32:]...)
	case "sig-R-bad-forged":
		// s = k*a for the challenge over the undecodable R: valid if (and only
		// if) a verifier took the undecodable R for the identity element
		k := ref.SrChallenge(e.M.Transcript(), pub, m.Bytes)
		b.Sig = c12Mark(m.Bytes, ref.SMul(k, sk.Key))
	case "zero-sig":
		b.ZeroSig = true
	case "zero-pk":
		b.ZeroPK = true
	case "failed-sig":
		b.FailSig, b.Bad = true, m.Bytes
	case "failed-pk":
		b.FailPK, b.Bad = true, m.Bytes
	default:
		panic("verifh: C12Mut kind " + m.Kind)
	}
	b.M = mm
	if !mm.Same(e.M) {
		b.Altered = true
	}
	return b
}

// Expect is the reference verdict for what Build produced: zero-value and
// reset objects never verify; otherwise schnorrkel verification on the bytes.
func (b C12Built) Expect() bool {
	if b.ZeroSig || b.ZeroPK || b.FailSig || b.FailPK {
		return false
	}
	return ref.SrVerifyKnownLog(b.PubLog, b.Pub, b.M.Transcript(), b.Sig)
}

// c12BadRist draws a 32-byte string that is not a ristretto255 encoding.
func c12BadRist(t *rapid.T, label string) []byte {
	switch rapid.IntRange(0, 3).Draw(t, label+"_bk") {
	case 0:
		l := C11RistBadEncodings
		return c11MustHex(l[rapid.IntRange(0, len(l)-1).Draw(t, label+"_bad")])
	case 1:
		return c11Search(ref.FromLE(UniformBytes(t, 32, label)), C11NonSquare)
	case 2:
		return c11Search(ref.FromLE(UniformBytes(t, 32, label)), C11TNegative)
	default: // odd ("negative") s
		b := UniformBytes(t, 32, label)
		b[0] |= 1
		b[31] &= 0x3f
		return b
	}
}

// c12BadSig draws 64 bytes that Signature.UnmarshalBinary must reject.
func c12BadSig(t *rapid.T, label string) []byte {
	b := UniformBytes(t, 64, label)
	switch rapid.IntRange(0, 2).Draw(t, label+"_bs") {
	case 0: // unmarked, scalar fine
		b[63] &= 0x0f
	case 1: // marked, scalar >= L
		b[63] |= 0xa0
	default: // wrong length
		return b[:rapid.SampledFrom([]int{0, 1, 32, 63}).Draw(t, label+"_bl")]
	}
	return b
}

var c12MutKinds = []string{
	"sig-flip", "ctx-flip", "msg-flip", "pk-other", "src", "sig-s-add", "sig-R-add", "pk-neg", "pk-add", "sig-s+L", "sig-unmark", "sig-R-bad", "sig-R-bad-forged",
	"ctx-append", "ctx-trunc", "ctx-shift", "msg-append", "msg-trunc", "src-raw",
}

// C12GenMut draws an alteration; batch selects the kinds that only make
// sense as batch entries (objects in their zero / reset state).
func C12GenMut(t *rapid.T, label string, objects bool) C12Mut {
	kinds := c12MutKinds
	if objects {
		kinds = append(append([]string(nil), kinds...), "zero-sig", "zero-pk", "failed-sig", "failed-pk")
	}
	// an evenly spread choice (rapid's small-value bias would starve the tail of the list)
	m := C12Mut{Kind: kinds[int(rapid.Uint32().Draw(t, label+"_mk")%uint32(len(kinds)))]}
	switch m.Kind {
	case "ctx-flip", "msg-flip":
		m.N = rapid.IntRange(0, 4095).Draw(t, label+"_bit")
	case "ctx-append", "msg-append":
		m.N = int(rapid.Byte().Draw(t, label+"_byte"))
	case "src":
		m.Other = rapid.SampledFrom(C12Sources).Draw(t, label+"_src")
	case "pk-other":
		m.Key, _ = C12GenKey(t, label+"_key")
	case "pk-add", "sig-s-add", "sig-R-add":
		m.N = rapid.SampledFrom([]int{1, -1, 2, 8, -8, 255}).Draw(t, label+"_d")
	case "sig-flip":
		switch rapid.IntRange(0, 3).Draw(t, label+"_where") {
		case 0: // the top bits of s: marker, and the bits that decide s < L
			m.N = rapid.IntRange(496, 511).Draw(t, label+"_bit")
		case 1: // R
			m.N = rapid.IntRange(0, 255).Draw(t, label+"_bit")
		default:
			m.N = rapid.IntRange(0, 511).Draw(t, label+"_bit")
		}
	case "sig-R-bad", "sig-R-bad-forged":
		m.Bytes = c12BadRist(t, label+"_R")
	case "failed-sig":
		m.Bytes = c12BadSig(t, label+"_bad")
	case "failed-pk":
		if rapid.Bool().Draw(t, label+"_len") {
			m.Bytes = UniformBytes(t, rapid.SampledFrom([]int{0, 31, 33, 64}).Draw(t, label+"_bl"), label+"_bad")
		} else {
			m.Bytes = c12BadRist(t, label+"_bad")
		}
	}
	return m
}

// C12GenEntry draws an honest entry.
func C12GenEntry(t *rapid.T, label string) (C12Entry, string) {
	k, cls := C12GenKey(t, label+"_key")
	return C12Entry{Key: k, M: C12GenMsg(t, label+"_m"), Ent: C12GenEntropy(t, label+"_ent")}, cls
}

// ---------------------------------------------------------------- decoder strings

// c12ScalarString draws 32 bytes for a canonical-scalar decoder (any 256-bit
// value), with extra weight on the neighbourhood of L.
func c12ScalarString(t *rapid.T, label string) ([]byte, string) {
	switch rapid.IntRange(0, 7).Draw(t, label+"_sk") {
	case 0: // L + e
		e := rapid.IntRange(-2, 2).Draw(t, label+"_e")
		return ref.ToLE(new(big.Int).Add(ref.L, big.NewInt(int64(e))), 32), "s:L+e"
	case 1: // canonical + L (same residue)
		s, _ := ReducedScalar(t, label+"_s")
		return ref.ToLE(new(big.Int).Add(ref.FromLE(s), ref.L), 32), "s:s+L"
	case 2: // strings sharing the top words of L: walk every word of the comparison
		lb := ref.ToLE(ref.L, 32)
		k := rapid.IntRange(0, 3).Draw(t, label+"_word")
		v := append([]byte(nil), lb...)
		if rapid.Bool().Draw(t, label+"_how") {
			copy(v[:8*k], Expand(rapid.Uint64().Draw(t, label+"_fill"), 8*k))
		} else {
			w := new(big.Int).Lsh(big.NewInt(1), uint(64*k))
			x := ref.FromLE(v)
			if rapid.Bool().Draw(t, label+"_up") {
				x.Add(x, w)
			} else {
				x.Sub(x, w)
			}
			v = ref.ToLE(x, 32)
		}
		return v, "s:L-prefix"
	case 3, 4:
		s, c := ReducedScalar(t, label+"_s")
		return s, "s:reduced:" + c
	default:
		b, c := Bytes256(t, label+"_s")
		return b, "s:" + c
	}
}

// C12DecCase is an input for one of the decoders.
type C12DecCase struct {
	Dec string `json:"dec"` // sig | pk | sk | kp | mini | edbytes
	In  Hex    `json:"in"`
	Cls string `json:"cls"`
}

func c12OtherLen(t *rapid.T, n int, label string) int {
	for {
		l := HostileLen(t, n, label)
		if l == n {
			l = rapid.SampledFrom([]int{0, 1, 31, 32, 33, 63, 64, 65, 95, 96, 97, 128, 192}).Draw(t, label+"_alt")
		}
		if l != n {
			return l
		}
	}
}

// C12GenDecCase draws a decoder input.
func C12GenDecCase(t *rapid.T) C12DecCase {
	dec := rapid.SampledFrom([]string{"sig", "sig", "sig", "pk", "pk", "sk", "sk", "kp", "kp", "kp", "mini", "edbytes"}).Draw(t, "dec")
	nominal := map[string]int{"sig": 64, "pk": 32, "sk": 64, "kp": 96, "mini": 32, "edbytes": 64}[dec]
	if rapid.IntRange(0, 7).Draw(t, "len") == 0 || (dec == "mini" && rapid.Bool().Draw(t, "minilen")) {
		n := c12OtherLen(t, nominal, "l")
		b := UniformBytes(t, n, "bytes")
		if dec == "sig" && n > 0 {
			b[n-1] |= 0x80
		}
		return C12DecCase{Dec: dec, In: b, Cls: "length"}
	}
	switch dec {
	case "sig":
		var r []byte
		var rc string
		if rapid.Bool().Draw(t, "rvalid") {
			r, rc = C11GenRistString(t, "R")
		} else {
			r, rc = UniformBytes(t, 32, "R"), "gen:uniform"
		}
		s, sc := c12ScalarString(t, "s")
		in := append(append([]byte(nil), r...), s...)
		cls := "marked"
		switch rapid.IntRange(0, 5).Draw(t, "marker") {
		case 0:
			in[63] &= 0x7f
			cls = "unmarked"
		case 1: // as drawn: bit 255 of a 256-bit scalar string
			cls = "as-drawn"
		default:
			in[63] |= 0x80
		}
		return C12DecCase{Dec: dec, In: in, Cls: cls + "/" + sc + "/R:" + rc}
	case "pk":
		b, c := C11GenRistString(t, "A")
		return C12DecCase{Dec: dec, In: b, Cls: c}
	case "sk":
		s, sc := c12ScalarString(t, "s")
		return C12DecCase{Dec: dec, In: append(s, c12Fill(t, 32, "nonce")...), Cls: sc}
	case "kp":
		var s []byte
		var sc string
		if rapid.IntRange(0, 3).Draw(t, "anys") == 0 {
			s, sc = c12ScalarString(t, "s")
		} else {
			s, sc = ReducedScalar(t, "s")
			sc = "s:reduced:" + sc
		}
		nonce := c12Fill(t, 32, "nonce")
		a := ref.FromLE(s)
		var pub []byte
		var pc string
		switch rapid.IntRange(0, 9).Draw(t, "pub") {
		case 0, 1, 2, 3:
			pub, pc = ref.RistEncode(ref.C03MulBase(ref.SMod(a))), "pub:own"
		case 4:
			pub, pc = ref.RistEncode(ref.C03MulBase(ref.SNeg(a))), "pub:neg"
		case 5:
			d := rapid.SampledFrom([]int{1, -1, 2, 8}).Draw(t, "d")
			pub, pc = ref.RistEncode(ref.C03MulBase(ref.SAdd(a, big.NewInt(int64(d))))), "pub:neighbour"
		case 6: // the negative alias p - s of the right encoding
			own := ref.FromLE(ref.RistEncode(ref.C03MulBase(ref.SMod(a))))
			pub, pc = ref.ToLE(ref.FNeg(own), 32), "pub:own-negated-s"
		case 7: // right encoding with bit 255 set / one bit flipped
			pub = ref.RistEncode(ref.C03MulBase(ref.SMod(a)))
			if rapid.Bool().Draw(t, "hi") {
				pub[31] |= 0x80
			} else {
				pub = c12FlipBit(pub, rapid.IntRange(0, 255).Draw(t, "bit"))
			}
			pc = "pub:own-mutated"
		case 8:
			pub, pc = C11GenRistString(t, "A")
			pc = "pub:" + pc
		default:
			o, _ := C12GenKey(t, "other")
			pub, pc = o.Secret().SrPublicKeyFast(), "pub:other-key"
		}
		in := append(append(append([]byte(nil), s...), nonce...), pub...)
		return C12DecCase{Dec: dec, In: in, Cls: sc + "/" + pc}
	case "mini":
		return C12DecCase{Dec: dec, In: c12Fill(t, 32, "mini"), Cls: "mini"}
	default: // edbytes
		b := append(UniformBytes(t, 32, "s"), c12Fill(t, 32, "nonce")...)
		cls := "clamped"
		b[0] &= 248
		b[31] &= 63
		b[31] |= 64
		switch rapid.IntRange(0, 7).Draw(t, "clamp") {
		case 0:
			b[0] |= 1 << uint(rapid.IntRange(0, 2).Draw(t, "low"))
			cls = "low-bits"
		case 1:
			b[31] |= 0x80
			cls = "bit255"
		case 2:
			b[31] &^= 0x40
			cls = "bit254-clear"
		case 3:
			b[31] = b[31]&^0x40 | 0x80
			cls = "bit255-only"
		case 4:
			for i := 0; i < 32; i++ {
				b[i] = 0xff
			}
			b[0], b[31] = 0xf8, 0x7f
			cls = "clamped-max"
		case 5:
			for i := 0; i < 32; i++ {
				b[i] = 0
			}
			b[31] = 0x40
			cls = "clamped-min"
		}
		return C12DecCase{Dec: dec, In: b, Cls: cls}
	}
}

// ---------------------------------------------------------------- batch histories

// C12Op is one step of a batch-verifier history.
//
//	add       : Add pool entry I, N times
//	addpair   : Add pool entries I and I+1 (a cancelling pair), once each
//	reset     : Reset
//	verify    : Verify(entropy)
//	batchonly : VerifyBatchOnly(entropy)
type C12Op struct {
	Op  string     `json:"op"`
	I   int        `json:"i,omitempty"`
	N   int        `json:"n,omitempty"`
	Ent C09Entropy `json:"ent,omitempty"`
}

// C12BatchCase is a pool of entries and a history over it.
type C12BatchCase struct {
	Cap  int        `json:"cap"` // -1: NewBatchVerifier, else NewBatchVerifierWithCapacity(Cap)
	Pool []C12Entry `json:"pool"`
	Ops  []C12Op    `json:"ops"`
}

// C12GenBatchCase draws a batch history.  The pool is small (the reference
// signs every entry); batch sizes come from repetition counts.
func C12GenBatchCase(t *rapid.T) C12BatchCase {
	var c C12BatchCase
	c.Cap = rapid.SampledFrom([]int{-1, -1, 0, 1, 10, 300}).Draw(t, "cap")
	profile := rapid.IntRange(0, 9).Draw(t, "profile") // 0..2 all valid, 3..6 with invalid entries, 7..9 with a cancelling pair
	nGood := rapid.IntRange(1, 3).Draw(t, "ngood")
	for i := 0; i < nGood; i++ {
		e, _ := C12GenEntry(t, fmt.Sprintf("g%d", i))
		if i > 0 && rapid.Bool().Draw(t, "samekey") {
			e.Key = c.Pool[0].Key
		}
		c.Pool = append(c.Pool, e)
	}
	var bad, pairs []int
	if (profile >= 3 && profile <= 6) || (profile >= 7 && rapid.IntRange(0, 3).Draw(t, "pairbad") == 0) {
		nBad := rapid.IntRange(1, 3).Draw(t, "nbad")
		for i := 0; i < nBad; i++ {
			e, _ := C12GenEntry(t, fmt.Sprintf("b%d", i))
			if rapid.Bool().Draw(t, "cheapmsg") { // share the first good entry's input: a more interesting batch
				e.Key, e.M = c.Pool[0].Key, c.Pool[0].M
			}
			m := C12GenMut(t, fmt.Sprintf("b%dm", i), true)
			e.Mut = &m
			bad = append(bad, len(c.Pool))
			c.Pool = append(c.Pool, e)
		}
	}
	if profile >= 7 {
		d := rapid.SampledFrom([]int{1, -1, 2, 1000}).Draw(t, "delta")
		e1, _ := C12GenEntry(t, "p1")
		e2, _ := C12GenEntry(t, "p2")
		if rapid.Bool().Draw(t, "pairsame") {
			e2.Key, e2.M = e1.Key, e1.M
		}
		e1.Mut = &C12Mut{Kind: "sig-cancel", N: d}
		e2.Mut = &C12Mut{Kind: "sig-cancel", N: -d}
		pairs = append(pairs, len(c.Pool))
		c.Pool = append(c.Pool, e1, e2)
	}
	sizes := []int{1, 1, 1, 1, 2, 2, 3, 4, 7, 8, 15, 16, 17, 31, 32, 33, 63, 64, 65, 93, 94, 95, 96, 97, 127, 128, 129, 150, 199, 200}
	nOps := rapid.IntRange(1, 10).Draw(t, "nops")
	size := 0
	for i := 0; i < nOps; i++ {
		k := rapid.IntRange(0, 11).Draw(t, "opk")
		switch {
		case k <= 3 || (k <= 6 && len(bad) == 0 && len(pairs) == 0): // add good
			n := rapid.SampledFrom(sizes).Draw(t, "n")
			if size+n > 200 {
				n = 1
			}
			if size+n > 200 {
				continue
			}
			size += n
			c.Ops = append(c.Ops, C12Op{Op: "add", I: rapid.IntRange(0, nGood-1).Draw(t, "i"), N: n})
		case (k == 4 || k == 5 || len(pairs) == 0) && k <= 6 && len(bad) > 0:
			if size+1 > 200 {
				continue
			}
			size++
			c.Ops = append(c.Ops, C12Op{Op: "add", I: rapid.SampledFrom(bad).Draw(t, "i"), N: 1})
		case k <= 6:
			if size+2 > 200 {
				continue
			}
			size += 2
			c.Ops = append(c.Ops, C12Op{Op: "addpair", I: rapid.SampledFrom(pairs).Draw(t, "i")})
		case k == 7:
			size = 0
			c.Ops = append(c.Ops, C12Op{Op: "reset"})
		case k == 8 || k == 9:
			c.Ops = append(c.Ops, C12Op{Op: "verify", Ent: C09GenEntropy(t, "ve")})
		default:
			c.Ops = append(c.Ops, C12Op{Op: "batchonly", Ent: C09GenEntropy(t, "be")})
		}
	}
	// every history ends by deciding the batch both ways
	c.Ops = append(c.Ops, C12Op{Op: "batchonly", Ent: C09GenEntropy(t, "fe1")}, C12Op{Op: "verify", Ent: C09GenEntropy(t, "fe2")})
	return c
}
