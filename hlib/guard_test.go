package verifh

import (
	"sync/atomic"
	"testing"
	"time"
)

func TestReturnsGuard(t *testing.T) {
	if !Returns(time.Second, func() {}) {
		t.Fatal("an empty function was reported as not returning")
	}
	// a sleeping (blocked, not spinning) function is never reported: it burns no CPU
	if !Returns(50*time.Millisecond, func() { time.Sleep(3 * time.Second) }) {
		t.Fatal("a sleeping function was reported as not returning")
	}
	var stop atomic.Bool
	defer stop.Store(true)
	t0 := time.Now()
	if Returns(time.Second, func() {
		for !stop.Load() {
		}
	}) {
		t.Fatal("a spinning function was reported as returning")
	}
	if d := time.Since(t0); d > 30*time.Second {
		t.Fatalf("detection took %v", d)
	}
	func() {
		defer func() {
			if recover() == nil {
				t.Fatal("panic not re-raised")
			}
		}()
		Returns(time.Second, func() { panic("x") })
	}()
}
