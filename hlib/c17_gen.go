package verifh

import (
	"math/big"

	"pgregory.net/rapid"
	ref "verifref"
)

// C17Scalar draws a 32-byte little-endian value < 2^255 for the digit
// recodings (property C17) together with its class.  On top of the shared
// boundary catalogue (Scalar255) it builds values *by construction from
// windows*: a sequence of w-bit windows each chosen from the values that start,
// sustain or stop a carry chain in a signed recoding of that width
// (2^(w-1)-1, 2^(w-1), 2^(w-1)+1, 2^w-1, 0, 1, random), so that carries run
// through every digit position and across the 64-bit word seams, and reach the
// top digit.
func C17Scalar(t *rapid.T, label string) ([]byte, string) {
	k := rapid.IntRange(0, 9).Draw(t, label+"_c17k")
	mask255 := new(big.Int).Sub(pow2(255), big.NewInt(1))
	switch k {
	case 0, 1, 2: // window-structured
		w := uint(rapid.IntRange(2, 8).Draw(t, label+"_w"))
		half := uint64(1) << (w - 1)
		full := uint64(1)<<w - 1
		choices := []uint64{half - 1, half, half + 1, full, full - 1, 0, 1}
		// bias: which of the choices dominate this value
		dom := rapid.IntRange(0, len(choices)).Draw(t, label+"_dom")
		off := uint(rapid.IntRange(0, int(w)-1).Draw(t, label+"_off")) // windows need not be digit aligned
		v := new(big.Int)
		n := (255 + int(w) - 1) / int(w)
		for i := n; i >= 0; i-- {
			var d uint64
			c := rapid.IntRange(0, 9).Draw(t, label+"_wc")
			switch {
			case c < 6 && dom < len(choices):
				d = choices[dom]
			case c < 9:
				d = choices[rapid.IntRange(0, len(choices)-1).Draw(t, label+"_wi")]
			default:
				d = rapid.Uint64Range(0, full).Draw(t, label+"_wr")
			}
			v.Lsh(v, w)
			v.Or(v, new(big.Int).SetUint64(d&full))
		}
		v.Lsh(v, off)
		v.And(v, mask255)
		return ref.ToLE(v, 32), "window-chain"
	case 3: // nibble chain reaching the top nibble: 0x7 f..f / 8..8 / 7..7 then a tail
		top := rapid.SampledFrom([]byte{0x7f, 0x78, 0x77, 0x7e, 0x70, 0x6f, 0x3f, 0x40, 0x47, 0x48}).Draw(t, label+"_top")
		fill := rapid.SampledFrom([]byte{0xff, 0x88, 0x77, 0x78, 0x87, 0x8f, 0xf8, 0x80, 0x7f}).Draw(t, label+"_fill")
		n := rapid.IntRange(0, 31).Draw(t, label+"_n") // number of fill bytes below the top byte
		b := UniformBytes(t, 32, label)
		if rapid.Bool().Draw(t, label+"_ztail") {
			for i := range b {
				b[i] = 0
			}
		}
		for i := 31 - n; i < 31; i++ {
			b[i] = fill
		}
		b[31] = top
		return b, "top-chain"
	case 4: // 2^255 - 2^j - e and 2^j-aligned runs of ones: NAF digit at position 255
		j := uint(rapid.IntRange(0, 254).Draw(t, label+"_j"))
		e := int64(rapid.IntRange(0, 300).Draw(t, label+"_e"))
		v := new(big.Int).Sub(pow2(255), pow2(j))
		v.Sub(v, big.NewInt(e))
		if v.Sign() < 0 {
			v.SetInt64(0)
		}
		v.And(v, mask255)
		return ref.ToLE(v, 32), "top-run"
	case 5: // runs of ones/zeros with random run lengths (long carry chains in NAF)
		v := new(big.Int)
		pos := 0
		bit := uint(rapid.IntRange(0, 1).Draw(t, label+"_b0"))
		for pos < 255 {
			l := rapid.IntRange(1, 70).Draw(t, label+"_rl")
			if rapid.IntRange(0, 3).Draw(t, label+"_short") == 0 {
				l = rapid.IntRange(1, 3).Draw(t, label+"_rs")
			}
			for i := 0; i < l && pos < 255; i++ {
				v.SetBit(v, pos, bit)
				pos++
			}
			bit ^= 1
		}
		return ref.ToLE(v, 32), "runs"
	default:
		return Scalar255(t, label)
	}
}
