package verifh

import (
	"testing"

	"pgregory.net/rapid"
	ref "verifref"
)

func c04TestShapes() []C04Shape {
	return []C04Shape{
		C04Shape51(1<<54 - 1),
		C04Shape51(^uint64(0)),
		C04Shape51Max([5]uint64{1<<51 - 1 + 19*8191, 1<<51 - 1 + 8191, 1<<51 - 1 + 8191, 1<<51 - 1 + 8191, 1<<51 - 1 + 8191}),
		C04Shape2625(226039551, 113019775),
		C04Shape2625(1<<26-1, 1<<25-1),
	}
}

// The generators stay inside the shape; C04Repr preserves the value mod p;
// Canonical/Value round-trip.
func TestC04LimbGenerators(t *testing.T) {
	rapid.Check(t, func(rt *rapid.T) {
		for si, s := range c04TestShapes() {
			l, cls := C04GenLimbs(rt, "l", s)
			if !s.InRange(l) {
				rt.Fatalf("shape %d class %s: limbs out of range: %v", si, cls, l)
			}
			v := C04SpecialValue(rt, "v")
			r := C04Repr(rt, "r", s, v)
			if !s.InRange(r) {
				rt.Fatalf("shape %d: repr out of range: %v", si, r)
			}
			if ref.FMod(s.Value(r)).Cmp(ref.FMod(v)) != 0 {
				rt.Fatalf("shape %d: repr changed the value: v=%v limbs=%v", si, v, r)
			}
			c := s.Canonical(s.Value(l))
			if s.Value(c).Cmp(ref.FMod(s.Value(l))) != 0 {
				rt.Fatalf("shape %d: canonical limbs wrong", si)
			}
		}
	})
}

func TestC04ShapePositions(t *testing.T) {
	s := C04Shape2625(0, 0)
	want := []uint{0, 26, 51, 77, 102, 128, 153, 179, 204, 230}
	for i := range want {
		if s.Pos[i] != want[i] {
			t.Fatalf("pos[%d]=%d want %d", i, s.Pos[i], want[i])
		}
	}
	// p itself evaluates to p in both layouts
	for _, s := range []C04Shape{C04Shape51(0), C04Shape2625(0, 0)} {
		l := make([]uint64, s.N())
		for i := range l {
			l[i] = s.PLimb(i)
		}
		if s.Value(l).Cmp(ref.P) != 0 {
			t.Fatalf("p limbs do not evaluate to p")
		}
	}
}
