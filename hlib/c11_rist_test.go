package verifh

import (
	"bytes"
	"math/big"
	"os"
	"strings"
	"testing"

	ref "verifref"
)

// The mathematical restatement of DECODE must agree with the RFC-pseudo-code
// reference (itself validated against the RFC vectors in verifref's tests) and
// must attribute every RFC bad encoding to the section it is listed under.
func TestC11RistDecodeMath(t *testing.T) {
	wantCls := func(i int) string {
		switch {
		case i < 4:
			return C11NonCanonical
		case i < 12:
			return C11Negative
		case i < 20:
			return C11NonSquare
		case i < 28:
			return C11TNegative
		default:
			return C11YZero
		}
	}
	if len(C11RistBadEncodings) != 29 || len(C11RistMultiples) != 16 {
		t.Fatal("vector counts")
	}
	for i, hx := range C11RistBadEncodings {
		b := c11MustHex(hx)
		if _, ok := ref.RistDecode(b); ok {
			t.Fatalf("bad encoding %d accepted by ref.RistDecode", i)
		}
		if cls, _ := C11RistDecodeMath(b); cls != wantCls(i) {
			t.Fatalf("bad encoding %d: class %s, RFC section says %s", i, cls, wantCls(i))
		}
	}
	for i, hx := range C11RistMultiples {
		b := c11MustHex(hx)
		if !bytes.Equal(ref.RistEncode(ref.MulBase(big.NewInt(int64(i)))), b) {
			t.Fatalf("multiple %d: reference encoding differs", i)
		}
		cls, p := C11RistDecodeMath(b)
		q, ok := ref.RistDecode(b)
		if cls != C11OK || !ok || !p.Equal(q) || !p.OnCurve() {
			t.Fatalf("multiple %d: %s %v", i, cls, ok)
		}
	}
	// the copied data must be the data validated in verifref's own test file
	if src, err := os.ReadFile("../ref/ristretto_vectors_test.go"); err == nil {
		for _, hx := range append(append([]string{}, C11RistBadEncodings...), C11RistMultiples...) {
			if !strings.Contains(string(src), `"`+hx+`"`) {
				t.Fatalf("vector %s not in verifref's vector file", hx)
			}
		}
	}
	// agreement on pseudo-random strings of every flavour
	n := map[string]int{}
	for i := uint64(0); i < 3000; i++ {
		b := Expand(i, 32)
		switch i % 3 {
		case 1:
			b[31] &= 0x7f
		case 2:
			b[31] &= 0x7f
			b[0] &^= 1
		}
		cls, p := C11RistDecodeMath(b)
		q, ok := ref.RistDecode(b)
		if (cls == C11OK) != ok {
			t.Fatalf("%x: math=%s rfc=%v", b, cls, ok)
		}
		if ok {
			if !p.Equal(q) || !bytes.Equal(ref.RistEncode(q), b) {
				t.Fatalf("%x: representatives / round trip differ", b)
			}
			// |1/s| fails exactly the t check
			inv := ref.ToLE(ref.FAbs(ref.FInv(ref.FromLE(b))), 32)
			if c2, _ := C11RistDecodeMath(inv); c2 != C11TNegative {
				t.Fatalf("|1/s| of %x: %s", b, c2)
			}
		}
		n[cls]++
	}
	for _, c := range []string{C11OK, C11NonCanonical, C11Negative, C11NonSquare, C11TNegative} {
		if n[c] == 0 {
			t.Fatalf("class %s never hit: %v", c, n)
		}
	}
	// the searches terminate and hit their class
	for _, want := range []string{C11OK, C11NonSquare, C11TNegative} {
		for i := uint64(0); i < 20; i++ {
			b := c11Search(ref.FromLE(Expand(1000+i, 32)), want)
			if cls, _ := C11RistDecodeMath(b); cls != want {
				t.Fatal("search")
			}
		}
	}
}

// MAP at its degenerate inputs still lands on the curve and its image decodes
// (the RFC's formulas are total); the v = 0 inputs exist.
func TestC11MapSpecials(t *testing.T) {
	sp := c11MapSpecials()
	if len(sp) < 11 {
		t.Fatalf("expected the two v = 0 root pairs, got %d specials", len(sp))
	}
	for _, v := range sp {
		p := ref.RistMap(v)
		if !p.OnCurve() {
			t.Fatalf("MAP(%x) off curve", ref.FEncode(v))
		}
		enc := ref.RistEncode(p)
		if q, ok := ref.RistDecode(enc); !ok || !ref.RistEqual(p, q) {
			t.Fatalf("MAP(%x) image does not round-trip", ref.FEncode(v))
		}
	}
}
