package verifh

// Generators for C11 (ristretto255, RFC 9496): 32-byte decoder strings built
// so that every step of the RFC's DECODE is failed separately, projective
// scaling factors, and 64-byte inputs of the one-way map.

import (
	"encoding/hex"
	"math/big"

	"pgregory.net/rapid"
	ref "verifref"
)

// C11RistBadEncodings is the list of invalid encodings of RFC 9496 appendix
// A.2 (data copied from the RFC text; the last entry, p-1, is the in-tree
// addition that decodes to y = 0).
var C11RistBadEncodings = []string{
	// non-canonical field encodings
	"00ffffffffffffffffffffffffffffffffffffffffffffffffffffffffffffff",
	"ffffffffffffffffffffffffffffffffffffffffffffffffffffffffffffff7f",
	"f3ffffffffffffffffffffffffffffffffffffffffffffffffffffffffffff7f",
	"edffffffffffffffffffffffffffffffffffffffffffffffffffffffffffff7f",
	// negative field elements
	"0100000000000000000000000000000000000000000000000000000000000000",
	"01ffffffffffffffffffffffffffffffffffffffffffffffffffffffffffff7f",
	"ed57ffd8c914fb201471d1c3d245ce3c746fcbe63a3679d51b6a516ebebe0e20",
	"c34c4e1826e5d403b78e246e88aa051c36ccf0aafebffe137d148a2bf9104562",
	"c940e5a4404157cfb1628b108db051a8d439e1a421394ec4ebccb9ec92a8ac78",
	"47cfc5497c53dc8e61c91d17fd626ffb1c49e2bca94eed052281b510b1117a24",
	"f1c6165d33367351b0da8f6e4511010c68174a03b6581212c71c0e1d026c3c72",
	"87260f7a2f12495118360f02c26a470f450dadf34a413d21042b43b9d93e1309",
	// non-square x^2
	"26948d35ca62e643e26a83177332e6b6afeb9d08e4268b650f1f5bbd8d81d371",
	"4eac077a713c57b4f4397629a4145982c661f48044dd3f96427d40b147d9742f",
	"de6a7b00deadc788eb6b6c8d20c0ae96c2f2019078fa604fee5b87d6e989ad7b",
	"bcab477be20861e01e4a0e295284146a510150d9817763caf1a6f4b422d67042",
	"2a292df7e32cababbd9de088d1d1abec9fc0440f637ed2fba145094dc14bea08",
	"f4a9e534fc0d216c44b218fa0c42d99635a0127ee2e53c712f70609649fdff22",
	"8268436f8c4126196cf64b3c7ddbda90746a378625f9813dd9b8457077256731",
	"2810e5cbc2cc4d4eece54f61c6f69758e289aa7ab440b3cbeaa21995c2f4232b",
	// negative x*y
	"3eb858e78f5a7254d8c9731174a94f76755fd3941c0ac93735c07ba14579630e",
	"a45fdc55c76448c049a1ab33f17023edfb2be3581e9c7aade8a6125215e04220",
	"d483fe813c6ba647ebbfd3ec41adca1c6130c2beeee9d9bf065c8d151c5f396e",
	"8a2e1d30050198c65a54483123960ccc38aef6848e1ec8f5f780e8523769ba32",
	"32888462f8b486c68ad7dd9610be5192bbeaf3b443951ac1a8118419d9fa097b",
	"227142501b9d4355ccba290404bde41575b037693cef1f438c47f8fbf35d1165",
	"5c37cc491da847cfeb9281d407efc41e15144c876e0170b499a96a22ed31e01e",
	"445425117cb8c90edcbc7c1cc0e74f747f2c1efa5630a967c64f287792a48a4b",
	// s = -1, which causes y = 0
	"ecffffffffffffffffffffffffffffffffffffffffffffffffffffffffffff7f",
}

// C11RistMultiples are the encodings of [0]B..[15]B from RFC 9496 appendix A.1.
var C11RistMultiples = []string{
	"0000000000000000000000000000000000000000000000000000000000000000",
	"e2f2ae0a6abc4e71a884a961c500515f58e30b6aa582dd8db6a65945e08d2d76",
	"6a493210f7499cd17fecb510ae0cea23a110e8d5b901f8acadd3095c73a3b919",
	"94741f5d5d52755ece4f23f044ee27d5d1ea1e2bd196b462166b16152a9d0259",
	"da80862773358b466ffadfe0b3293ab3d9fd53c5ea6c955358f568322daf6a57",
	"e882b131016b52c1d3337080187cf768423efccbb517bb495ab812c4160ff44e",
	"f64746d3c92b13050ed8d80236a7f0007c3b3f962f5ba793d19a601ebb1df403",
	"44f53520926ec81fbd5a387845beb7df85a96a24ece18738bdcfa6a7822a176d",
	"903293d8f2287ebe10e2374dc1a53e0bc887e592699f02d077d5263cdd55601c",
	"02622ace8f7303a31cafc63f8fc48fdc16e1c8c8d234b2f0d6685282a9076031",
	"20706fd788b2720a1ed2a5dad4952b01f413bcf0e7564de8cdc816689e2db95f",
	"bce83f8ba5dd2fa572864c24ba1810f9522bc6004afe95877ac73241cafdab42",
	"e4549ee16b9aa03099ca208c67adafcafa4c3f3e4e5303de6026e3ca8ff84460",
	"aa52e000df2e16f55fb1032fc33bc42742dad6bd5a8fc0be0167436c5948501f",
	"46376b80f409b29dc2b5f6f0c52591990896e5716f41477cd30085ab7f10301e",
	"e0c418f7c8d9c4cdd7395b93ea124f3ad99021bb681dfc3302a9d99a2e53e64e",
}

func c11MustHex(s string) []byte {
	b, err := hex.DecodeString(s)
	if err != nil {
		panic(err)
	}
	return b
}

// Outcome classes of C11RistDecodeMath, in the order of the RFC's checks.
const (
	C11OK           = "ok"
	C11Len          = "wrong-length"
	C11NonCanonical = "non-canonical" // value >= p (includes bit 255 set)
	C11Negative     = "negative-s"
	C11NonSquare    = "non-square"
	C11TNegative    = "t-negative"
	C11YZero        = "y-zero"
)

// C11RistDecodeMath is a second statement of RFC 9496 DECODE, written from the
// mathematics rather than from the RFC's pseudo-code (it uses the plain
// square root ref.FSqrt and explicit divisions instead of SQRT_RATIO_M1):
// the string must be the canonical encoding of an even s < p; with
// u1 = 1 - s^2, u2 = 1 + s^2, v = -d*u1^2 - u2^2 the value v*u2^2 must be a
// non-zero square; x = |2s/sqrt(v)|, y = u1/u2; x*y must be non-negative and
// y non-zero.  It returns the first check that fails (RFC order) and, for
// "ok", the decoded representative.  The harness cross-checks it against
// ref.RistDecode on every case, so the two statements validate each other.
func C11RistDecodeMath(b []byte) (string, ref.Point) {
	if len(b) != 32 {
		return C11Len, ref.Point{}
	}
	s := ref.FromLE(b)
	if s.Cmp(ref.P) >= 0 {
		return C11NonCanonical, ref.Point{}
	}
	if s.Bit(0) == 1 {
		return C11Negative, ref.Point{}
	}
	one := big.NewInt(1)
	ss := ref.FSqr(s)
	u1 := ref.FSub(one, ss)
	u2 := ref.FAdd(one, ss)
	v := ref.FSub(ref.FNeg(ref.FMul(ref.D, ref.FSqr(u1))), ref.FSqr(u2))
	if u2.Sign() == 0 || v.Sign() == 0 {
		return C11NonSquare, ref.Point{} // 1/sqrt(0) does not exist
	}
	r, ok := ref.FSqrt(v)
	if !ok {
		return C11NonSquare, ref.Point{}
	}
	x := ref.FAbs(ref.FDiv(ref.FMul(big.NewInt(2), s), r))
	y := ref.FDiv(u1, u2)
	if ref.FIsNeg(ref.FMul(x, y)) {
		return C11TNegative, ref.Point{}
	}
	if y.Sign() == 0 {
		return C11YZero, ref.Point{}
	}
	return C11OK, ref.Point{X: x, Y: y}
}

// c11SmallA draws a small non-zero multiple (cheap reference computation).
func c11SmallA(t *rapid.T, label string) *big.Int {
	return big.NewInt(int64(rapid.Uint32Range(1, 1<<20).Draw(t, label)))
}

// c11ValidS draws s = ENCODE([a]B) as an integer, a != 0 mod L.
func c11ValidS(t *rapid.T, label string) *big.Int {
	var a *big.Int
	if rapid.IntRange(0, 3).Draw(t, label+"_big") == 0 {
		ab, _ := ReducedScalar(t, label+"_a")
		a = ref.FromLE(ab)
		if a.Sign() == 0 {
			a.SetInt64(1)
		}
	} else {
		a = c11SmallA(t, label+"_a")
	}
	return ref.FromLE(ref.RistEncode(ref.MulBase(a)))
}

// c11Search walks s, s+2, s+4, ... (even canonical values) from a drawn
// starting point until the string has the wanted outcome class.
// Deterministic given the start, so the case stays a pure function of
// rapid's choices; each class has density >= 1/4 so the walk is short.
func c11Search(start *big.Int, want string) []byte {
	s := new(big.Int).Set(start)
	s.SetBit(s, 0, 0)
	s.SetBit(s, 255, 0)
	if s.Cmp(ref.P) >= 0 {
		s.Sub(s, ref.P)
		s.SetBit(s, 0, 0)
	}
	for i := 0; i < 4096; i++ {
		b := ref.ToLE(s, 32)
		if cls, _ := C11RistDecodeMath(b); cls == want {
			return b
		}
		s.Add(s, big.NewInt(2))
		if s.Cmp(ref.P) >= 0 {
			s.SetInt64(2)
		}
	}
	panic("verifh: c11Search found nothing for " + want)
}

// C11GenRistString draws a 32-byte string for the ristretto255 decoder and
// the name of the generator class.  (The outcome class is recomputed by the
// check from the bytes.)
func C11GenRistString(t *rapid.T, label string) ([]byte, string) {
	k := rapid.IntRange(0, 19).Draw(t, label+"_k")
	switch k {
	case 18, 19: // agrees with p above one byte position and differs there (a byte-wise canonicity test that goes wrong
		// at one index decides these wrongly); made even, and walked along the differing byte's neighbour until the
		// string is a VALID encoding in three cases out of four (a wrongly rejected string must be a valid one to show)
		b := BytewiseProbe(t, label, ref.P)
		b[31] &= 0x7f
		if rapid.IntRange(0, 3).Draw(t, label+"_bwvalid") > 0 {
			b[0] &= 0xfe
			step := rapid.SampledFrom([]int{0, 1, 30, 16}).Draw(t, label+"_bwstep") // which byte is walked
			for n := 0; n < 48; n++ {
				if c, _ := C11RistDecodeMath(b); c == C11OK {
					break
				}
				if step == 0 {
					b[0] += 2
				} else {
					b[step]--
				}
			}
		}
		return b, "gen:bytewise-p"
	case 0, 1, 2: // valid: ENCODE([a]B)
		return ref.ToLE(c11ValidS(t, label), 32), "gen:valid"
	case 3: // valid s -> p - s: the negative alias of the same Jacobi-quartic point
		s := c11ValidS(t, label)
		return ref.ToLE(new(big.Int).Sub(ref.P, s), 32), "gen:p-s"
	case 4: // valid with bit 255 set
		b := ref.ToLE(c11ValidS(t, label), 32)
		b[31] |= 0x80
		return b, "gen:valid|bit255"
	case 5: // s + p for the 19 values that fit below 2^255 (with / without bit 255)
		s := big.NewInt(int64(rapid.IntRange(0, 18).Draw(t, label+"_s19")))
		b := ref.ToLE(new(big.Int).Add(s, ref.P), 32)
		if rapid.IntRange(0, 3).Draw(t, label+"_hi") == 0 {
			b[31] |= 0x80
		}
		return b, "gen:s+p"
	case 6: // t negative by construction: |1/s| decodes to (x, -y)
		s := c11ValidS(t, label)
		return ref.ToLE(ref.FAbs(ref.FInv(s)), 32), "gen:|1/s|"
	case 7: // fails only the square test
		return c11Search(ref.FromLE(UniformBytes(t, 32, label)), C11NonSquare), "gen:non-square"
	case 8: // square, but t negative (found by search rather than by the 1/s trick)
		return c11Search(ref.FromLE(UniformBytes(t, 32, label)), C11TNegative), "gen:t-negative"
	case 9: // valid, found by search: elements that are not known multiples of B by construction
		return c11Search(ref.FromLE(UniformBytes(t, 32, label)), C11OK), "gen:valid-search"
	case 10: // RFC bad encodings
		l := C11RistBadEncodings
		return c11MustHex(l[rapid.IntRange(0, len(l)-1).Draw(t, label+"_bad")]), "gen:rfc-bad"
	case 11: // single-bit mutation of a valid encoding
		b := ref.ToLE(c11ValidS(t, label), 32)
		bit := rapid.IntRange(0, 255).Draw(t, label+"_bit")
		b[bit/8] ^= 1 << uint(bit%8)
		return b, "gen:mutated"
	case 12: // small s / p - small (both parities)
		v := big.NewInt(int64(rapid.IntRange(0, 300).Draw(t, label+"_small")))
		if rapid.Bool().Draw(t, label+"_top") {
			v.Sub(ref.P, v)
		}
		return ref.ToLE(v, 32), "gen:small"
	case 13: // boundary catalogue
		b, c := Bytes256(t, label)
		return b, "gen:catalogue:" + c
	case 14: // uniform canonical non-negative s (accept ~ 1/4)
		s := ref.FromLE(UniformBytes(t, 32, label))
		s.SetBit(s, 255, 0)
		s.SetBit(s, 0, 0)
		if s.Cmp(ref.P) >= 0 {
			s.Sub(s, ref.P)
			s.SetBit(s, 0, 0)
		}
		return ref.ToLE(s, 32), "gen:uniform-even"
	case 15: // valid encoding of an Elligator image (not a known multiple of B)
		p := ref.RistFromUniform(UniformBytes(t, 64, label))
		return ref.RistEncode(p), "gen:valid-elligator"
	default: // uniform 256-bit (accept ~ 6 %)
		return UniformBytes(t, 32, label), "gen:uniform"
	}
}

// C11GenLambda draws a projective scaling factor: 32 bytes, little-endian,
// value in [1, p).
func C11GenLambda(t *rapid.T, label string) []byte {
	var v *big.Int
	switch rapid.IntRange(0, 6).Draw(t, label+"_lk") {
	case 0:
		v = big.NewInt(1)
	case 1:
		v = big.NewInt(int64(rapid.SampledFrom([]int{2, 3, 4, 8, 19, 38, 121666}).Draw(t, label+"_small")))
	case 2:
		v = new(big.Int).Sub(ref.P, big.NewInt(int64(rapid.IntRange(1, 20).Draw(t, label+"_neg"))))
	case 3:
		v = new(big.Int).Lsh(big.NewInt(1), uint(rapid.IntRange(1, 254).Draw(t, label+"_sh")))
	case 4: // sqrt(-1) and its negative: swap the roles of the sign tests
		v = new(big.Int).Set(ref.SqrtM1)
		if rapid.Bool().Draw(t, label+"_n") {
			v = ref.FNeg(v)
		}
	default:
		v = ref.FromLE(UniformBytes(t, 32, label))
	}
	v = ref.FMod(v)
	if v.Sign() == 0 {
		v.SetInt64(1)
	}
	return ref.ToLE(v, 32)
}

// C11GenFieldString draws 32 bytes meant to be read as a field element with
// bit 255 ignored (the halves of the one-way map's input): canonical,
// >= p, bit 255 set, tiny, p - tiny, catalogue and uniform values.
func C11GenFieldString(t *rapid.T, label string) ([]byte, string) {
	var b []byte
	cls := ""
	switch rapid.IntRange(0, 7).Draw(t, label+"_fk") {
	case 0: // p + k, k = 0..18: the non-canonical spellings of 0..18
		k := rapid.IntRange(0, 18).Draw(t, label+"_k19")
		b = ref.ToLE(new(big.Int).Add(ref.P, big.NewInt(int64(k))), 32)
		cls = ">=p"
	case 1:
		b = ref.ToLE(big.NewInt(int64(rapid.IntRange(0, 40).Draw(t, label+"_small"))), 32)
		cls = "small"
	case 2:
		b = ref.ToLE(new(big.Int).Sub(ref.P, big.NewInt(int64(rapid.IntRange(1, 40).Draw(t, label+"_small")))), 32)
		cls = "p-small"
	case 3:
		var c string
		b, c = Bytes256(t, label)
		cls = "catalogue:" + c
	case 4: // values where an intermediate of MAP degenerates
		v := rapid.SampledFrom(c11MapSpecials()).Draw(t, label+"_sp")
		b = ref.ToLE(v, 32)
		cls = "special"
	default:
		b = UniformBytes(t, 32, label)
		b[31] &= 0x7f
		cls = "uniform"
	}
	if rapid.IntRange(0, 3).Draw(t, label+"_hi") == 0 {
		b[31] |= 0x80
		cls += "|bit255"
	}
	return b, cls
}

// c11MapSpecials lists field elements t for which an intermediate of RFC 9496
// MAP is 0 or otherwise special: with r = i*t^2, the denominator
// v = (-1 - r*d)*(r + d) vanishes at r = -1/d and r = -d (both have square
// roots t because i, d are both non-squares), so SQRT_RATIO_M1 is called with
// v = 0; plus +-i, +-d, 1/d, +-1.
var c11MapSpecialsCache []*big.Int

func c11MapSpecials() []*big.Int {
	if c11MapSpecialsCache != nil {
		return c11MapSpecialsCache
	}
	one := big.NewInt(1)
	out := []*big.Int{ref.SqrtM1, ref.FNeg(ref.SqrtM1), ref.D, ref.FNeg(ref.D), ref.FInv(ref.D), one, ref.FNeg(one)}
	iInv := ref.FInv(ref.SqrtM1)
	for _, r := range []*big.Int{ref.FNeg(ref.FInv(ref.D)), ref.FNeg(ref.D), ref.FNeg(one), one} {
		if t, ok := ref.FSqrt(ref.FMul(r, iInv)); ok { // t^2 = r/i
			out = append(out, t, ref.FNeg(t))
		}
	}
	c11MapSpecialsCache = out
	return out
}
