// Package verifh is the shared harness library: the Run wrapper around
// rapid.Check (stats, replay files, known findings), generators and boundary
// catalogues.
package verifh

import (
	"bufio"
	"crypto/sha256"
	"encoding/hex"
	"encoding/json"
	"fmt"
	"hash/fnv"
	"os"
	"path/filepath"
	"runtime/debug"
	"sort"
	"strings"
	"strconv"
	"sync"
	"sync/atomic"
	"syscall"
	"testing"
	"time"

	"pgregory.net/rapid"
)

// Hex is a byte slice that serialises as a hex string (readable replay files).
type Hex []byte

func (h Hex) MarshalJSON() ([]byte, error) { return json.Marshal(hex.EncodeToString(h)) }
func (h *Hex) UnmarshalJSON(b []byte) error {
	var s string
	if err := json.Unmarshal(b, &s); err != nil {
		return err
	}
	d, err := hex.DecodeString(s)
	if err != nil {
		return err
	}
	*h = d
	return nil
}
func (h Hex) String() string { return hex.EncodeToString(h) }

// Violation describes a failed property.  Sig is a stable signature used for
// matching known findings; Detail is free text.
type Violation struct {
	Sig    string
	Detail string
}

func Violf(sig, format string, a ...interface{}) *Violation {
	return &Violation{Sig: sig, Detail: fmt.Sprintf(format, a...)}
}

// Result is what a pure property function returns for one case.
type Result struct {
	Classes    []string // labels for the class histogram
	NonTrivial bool     // case is non-trivial by the property's stated rule
	Evals      int      // number of oracle comparisons made (default 1)
	Viol       *Violation
}

// R is a convenience builder used by property functions.
type R struct {
	res Result
}

func NewR() *R { return &R{} }
func (r *R) Class(c ...string) *R {
	r.res.Classes = append(r.res.Classes, c...)
	return r
}
func (r *R) NT(b bool) *R {
	if b {
		r.res.NonTrivial = true
	}
	return r
}
func (r *R) Eval(n int) *R { r.res.Evals += n; return r }
func (r *R) Fail(sig, format string, a ...interface{}) *R {
	if r.res.Viol == nil {
		r.res.Viol = Violf(sig, format, a...)
	}
	return r
}
func (r *R) Failed() bool   { return r.res.Viol != nil }
func (r *R) Result() Result { return r.res }

type testStats struct {
	Test      string            `json:"test"`
	Config    string            `json:"config"`
	Evals     int64             `json:"evals"`
	Cases     int64             `json:"cases"`
	NTCases   int64             `json:"nontrivial_cases"`
	Distinct  []uint64          `json:"distinct_hashes"`
	Capped    bool              `json:"distinct_capped"`
	Classes   map[string]int64  `json:"classes"`
	Samples   []json.RawMessage `json:"samples"`
	Known     map[string]int64  `json:"known"`
	Exhaust   bool              `json:"exhaustive"`
	Extra     map[string]string `json:"extra,omitempty"`
	distinct  map[uint64]struct{}
	sampleCls map[string]int
}

const distinctCap = 150000
const maxSamples = 10

var (
	statsMu  sync.Mutex
	allStats = map[string]*testStats{}
)

func getStats(test string) *testStats {
	s := allStats[test]
	if s == nil {
		s = &testStats{Test: test, Config: os.Getenv("VERIF_CONFIG"), Classes: map[string]int64{},
			Known: map[string]int64{}, distinct: map[uint64]struct{}{}, sampleCls: map[string]int{},
			Extra: map[string]string{}}
		allStats[test] = s
	}
	return s
}

// SetExtra records a free-form key/value in the stats of a test (e.g. which
// backend executed).
func SetExtra(t testing.TB, k, v string) {
	statsMu.Lock()
	defer statsMu.Unlock()
	getStats(t.Name()).Extra[k] = v
}

// MarkExhaustive records that the test enumerated its finite domain completely.
func MarkExhaustive(t testing.TB) {
	statsMu.Lock()
	defer statsMu.Unlock()
	getStats(t.Name()).Exhaust = true
}

func record(test string, c interface{}, res Result) {
	statsMu.Lock()
	defer statsMu.Unlock()
	s := getStats(test)
	s.Cases++
	if res.Evals <= 0 {
		s.Evals++
	} else {
		s.Evals += int64(res.Evals)
	}
	for _, cl := range res.Classes {
		s.Classes[cl]++
	}
	if !res.NonTrivial {
		return
	}
	s.NTCases++
	var js []byte
	needSample := false
	if len(s.Samples) < maxSamples {
		key := strings.Join(res.Classes, ",")
		if s.sampleCls[key] < 2 {
			needSample = true
			s.sampleCls[key]++
		}
	}
	if len(s.distinct) < distinctCap || needSample {
		js, _ = json.Marshal(c)
	}
	if len(s.distinct) < distinctCap {
		h := fnv.New64a()
		h.Write(js)
		s.distinct[h.Sum64()] = struct{}{}
	} else {
		s.Capped = true
	}
	if needSample {
		if len(js) > 4000 {
			js, _ = json.Marshal(map[string]interface{}{"truncated_case_prefix": string(js[:4000])})
		}
		w, _ := json.Marshal(map[string]interface{}{"test": test, "classes": res.Classes, "case": json.RawMessage(js)})
		s.Samples = append(s.Samples, w)
	}
}

func flush(test string) {
	dir := os.Getenv("VERIF_STATS_DIR")
	if dir == "" {
		return
	}
	statsMu.Lock()
	defer statsMu.Unlock()
	s := allStats[test]
	if s == nil {
		return
	}
	s.Distinct = s.Distinct[:0]
	for h := range s.distinct {
		s.Distinct = append(s.Distinct, h)
	}
	sort.Slice(s.Distinct, func(i, j int) bool { return s.Distinct[i] < s.Distinct[j] })
	b, err := json.Marshal(s)
	if err != nil {
		panic(err)
	}
	name := fmt.Sprintf("%s.%d.json", strings.ReplaceAll(test, "/", "_"), os.Getpid())
	tmp := filepath.Join(dir, name+".tmp")
	if err := os.WriteFile(tmp, b, 0o644); err != nil {
		panic(err)
	}
	os.Rename(tmp, filepath.Join(dir, name))
}

// ---- known findings ----

var (
	knownOnce sync.Once
	knownSigs map[string]bool
)

func isKnown(sig string) bool {
	knownOnce.Do(func() {
		knownSigs = map[string]bool{}
		path := os.Getenv("VERIF_KNOWN")
		if path == "" {
			return
		}
		b, err := os.ReadFile(path)
		if err != nil {
			return
		}
		for _, ln := range strings.Split(string(b), "\n") {
			ln = strings.TrimSpace(ln)
			// known: property=<id> sig=<signature> <free text>
			if !strings.HasPrefix(ln, "known:") {
				continue
			}
			for _, f := range strings.Fields(ln) {
				if strings.HasPrefix(f, "sig=") {
					knownSigs[strings.TrimPrefix(f, "sig=")] = true
				}
			}
		}
	})
	return knownSigs[sig]
}

type replayFile struct {
	Test      string          `json:"test"`
	Config    string          `json:"config"`
	Signature string          `json:"signature"`
	Detail    string          `json:"detail"`
	Case      json.RawMessage `json:"case"`
}

func dumpCase(test string, c interface{}, v *Violation) string {
	dir := os.Getenv("VERIF_REPLAY_DIR")
	if dir == "" {
		return ""
	}
	js, err := json.Marshal(c)
	if err != nil {
		js, _ = json.Marshal(fmt.Sprintf("unserialisable case: %v", err))
	}
	rf := replayFile{Test: test, Config: os.Getenv("VERIF_CONFIG"), Signature: v.Sig, Detail: v.Detail, Case: js}
	b, _ := json.MarshalIndent(rf, "", " ")
	shard := os.Getenv("VERIF_SHARD")
	name := fmt.Sprintf("%s.%s.s%s.json", strings.ReplaceAll(test, "/", "_"), os.Getenv("VERIF_CONFIG"), shard)
	path := filepath.Join(dir, name)
	os.WriteFile(path, b, 0o644)
	return path
}

func recoverCheck[C any](check func(C) Result, c C) (res Result) {
	defer func() {
		if r := recover(); r != nil {
			st := string(debug.Stack())
			if len(st) > 3000 {
				st = st[:3000]
			}
			res.Viol = &Violation{Sig: "harness:unexpected-panic", Detail: fmt.Sprintf("panic: %v\n%s", r, st)}
			res.NonTrivial = true
		}
	}()
	return check(c)
}

// ---- non-termination guard ----
//
// Every property speaks of what a call returns, so a call that never returns
// breaks it; without a guard such a case would only surface as the driver's
// wall-clock job timeout, which is (rightly) reported as inconclusive.  The
// guard runs each case on its own goroutine and measures the CPU time the
// process burns while the case is outstanding (getrusage, so machine load
// and scheduling do not count).  A case that is still running after
// caseCPUBudget CPU-seconds is reported as a violation with signature
// "<test>:no-return" and the process exits at once: the stuck goroutine
// cannot be stopped, so there is no shrinking.  The largest per-case wall
// time seen is exported in the stats ("max_case_ms") so the margin between
// legitimate cases and the budget stays visible in the evidence.

// ProcCPU is the CPU time (user+system) this process has consumed so far.
func ProcCPU() time.Duration { return procCPU() }

func procCPU() time.Duration {
	var ru syscall.Rusage
	if err := syscall.Getrusage(syscall.RUSAGE_SELF, &ru); err != nil {
		return 0
	}
	return time.Duration(ru.Utime.Nano() + ru.Stime.Nano())
}

func caseCPUBudget() time.Duration {
	if v, err := strconv.Atoi(os.Getenv("VERIF_CASE_CPU")); err == nil && v > 0 {
		return time.Duration(v) * time.Second
	}
	return 150 * time.Second
}

var maxCaseNS = map[string]int64{}

func noteCaseTime(test string, d time.Duration) {
	statsMu.Lock()
	if int64(d) > maxCaseNS[test] {
		maxCaseNS[test] = int64(d)
		getStats(test).Extra["max_case_ms"] = strconv.FormatFloat(float64(d)/1e6, 'f', 2, 64)
	}
	statsMu.Unlock()
}

// cpuWait waits for done while the process keeps burning CPU.  It returns
// true when done closed, false when more than budget CPU-seconds were burned
// first.  If the process stops consuming CPU altogether (blocked, not
// spinning: a deadlock, or simply descheduled) the polling stops and the wait
// becomes a plain blocking receive, so that the Go runtime's own deadlock
// detector ("all goroutines are asleep") is not masked by our timers; that
// direction can only end in "inconclusive" (job time limit), never an alarm.
func cpuWait(done <-chan struct{}, grace, budget time.Duration) bool {
	tm := time.NewTimer(grace)
	select {
	case <-done:
		tm.Stop()
		return true
	case <-tm.C:
	}
	cpu0 := procCPU()
	last, idleTicks := cpu0, 0
	tk := time.NewTicker(250 * time.Millisecond)
	defer tk.Stop()
	for {
		select {
		case <-done:
			return true
		case <-tk.C:
		}
		now := procCPU()
		if now-cpu0 > budget {
			return false
		}
		if now-last < 5*time.Millisecond {
			idleTicks++
		} else {
			idleTicks = 0
		}
		last = now
		if idleTicks >= 40 { // 10 s without CPU use: not a spin
			tk.Stop()
			<-done
			return true
		}
	}
}

// guarded runs f (one case) under the non-termination guard.
func guarded(test string, c interface{}, f func()) {
	t0 := time.Now()
	done := make(chan struct{})
	go func() {
		defer close(done)
		f()
	}()
	budget := caseCPUBudget()
	if cpuWait(done, 5*time.Second, budget) {
		noteCaseTime(test, time.Since(t0))
		return
	}
	v := &Violation{Sig: test + ":no-return", Detail: fmt.Sprintf("the case was still running after the process burned %.0f CPU-seconds on it (wall %.0fs) and was abandoned; every other case of this test finishes in well under a second", budget.Seconds(), time.Since(t0).Seconds())}
	path := dumpCase(test, c, v)
	if rp := os.Getenv("VERIF_REPLAY"); rp != "" {
		path = rp
	}
	flush(test)
	fmt.Printf("VERIF-VIOLATION test=%s sig=%s replay=%s detail=%s\n", test, v.Sig, path, oneLine(v.Detail))
	os.Stdout.Sync()
	os.Exit(1)
}

// Returns runs f on its own goroutine and reports whether it came back
// before the process burned cpuBudget CPU-seconds waiting for it (same
// load-independent clock as the case guard).  A panic in f is re-raised on
// the caller's goroutine.  On false the goroutine is abandoned (it cannot be
// stopped); the caller reports non-termination under its own signature.
var abandoned atomic.Bool // a goroutine was left spinning: do not shrink, report and exit

// exitIfAbandoned ends the process right after a violation was printed when
// a call was abandoned in this process: every further (shrinking) attempt
// would hang again and pile up spinning goroutines.
func exitIfAbandoned(test string) {
	if abandoned.Load() {
		flush(test)
		os.Stdout.Sync()
		os.Exit(1)
	}
}

func Returns(cpuBudget time.Duration, f func()) bool {
	done := make(chan struct{})
	var pnc interface{}
	go func() {
		defer func() {
			pnc = recover()
			close(done)
		}()
		f()
	}()
	if !cpuWait(done, 2*time.Second, cpuBudget) {
		abandoned.Store(true)
		return false
	}
	if pnc != nil {
		panic(pnc)
	}
	return true
}

func safeCheck[C any](test string, check func(C) Result, c C) (res Result) {
	guarded(test, c, func() { res = recoverCheck(check, c) })
	return res
}

// Run drives one property.  gen draws a case using only rapid; check is a pure
// function of the case.  In replay mode ($VERIF_REPLAY names a replay file for
// this test) the case is loaded and checked directly without rapid.
func Run[C any](t *testing.T, gen func(*rapid.T) C, check func(C) Result) {
	test := t.Name()
	if rp := os.Getenv("VERIF_REPLAY"); rp != "" {
		b, err := os.ReadFile(rp)
		if err != nil {
			t.Fatalf("VERIF-HARNESS-ERROR cannot read replay: %v", err)
		}
		var rf replayFile
		if err := json.Unmarshal(b, &rf); err != nil {
			t.Fatalf("VERIF-HARNESS-ERROR bad replay file: %v", err)
		}
		if rf.Test != test {
			t.Skipf("replay file is for %s", rf.Test)
		}
		var c C
		if err := json.Unmarshal(rf.Case, &c); err != nil {
			t.Fatalf("VERIF-HARNESS-ERROR bad replay case: %v", err)
		}
		res := safeCheck(test, check, c)
		fmt.Printf("VERIF-REPLAYED test=%s\n", test)
		if res.Viol != nil && !isKnown(res.Viol.Sig) {
			fmt.Printf("VERIF-VIOLATION test=%s sig=%s detail=%s\n", test, res.Viol.Sig, oneLine(res.Viol.Detail))
			exitIfAbandoned(test)
			t.Fatalf("violation: %s: %s", res.Viol.Sig, res.Viol.Detail)
		}
		return
	}
	t.Cleanup(func() { flush(test) })
	rapid.Check(t, func(rt *rapid.T) {
		c := gen(rt)
		res := safeCheck(test, check, c)
		if res.Viol != nil {
			if isKnown(res.Viol.Sig) {
				statsMu.Lock()
				getStats(test).Known[res.Viol.Sig]++
				statsMu.Unlock()
				res.Viol = nil
			}
		}
		if res.Viol != nil {
			path := dumpCase(test, c, res.Viol)
			fmt.Printf("VERIF-VIOLATION test=%s sig=%s replay=%s detail=%s\n", test, res.Viol.Sig, path, oneLine(res.Viol.Detail))
			exitIfAbandoned(test)
			rt.Fatalf("violation: %s: %s", res.Viol.Sig, res.Viol.Detail)
		}
		record(test, c, res)
	})
}

// RunList drives a property over an explicit finite list of cases (exhaustive
// enumeration); same reporting as Run.
func RunList[C any](t *testing.T, cases []C, check func(C) Result) {
	test := t.Name()
	if rp := os.Getenv("VERIF_REPLAY"); rp != "" {
		Run(t, func(*rapid.T) C { var c C; return c }, check)
		return
	}
	t.Cleanup(func() { flush(test) })
	MarkExhaustive(t)
	for _, c := range cases {
		res := safeCheck(test, check, c)
		if res.Viol != nil && isKnown(res.Viol.Sig) {
			statsMu.Lock()
			getStats(test).Known[res.Viol.Sig]++
			statsMu.Unlock()
			res.Viol = nil
		}
		if res.Viol != nil {
			path := dumpCase(test, c, res.Viol)
			fmt.Printf("VERIF-VIOLATION test=%s sig=%s replay=%s detail=%s\n", test, res.Viol.Sig, path, oneLine(res.Viol.Detail))
			exitIfAbandoned(test)
			t.Fatalf("violation: %s: %s", res.Viol.Sig, res.Viol.Detail)
		}
		record(test, c, res)
	}
}

func oneLine(s string) string {
	s = strings.ReplaceAll(s, "\n", " | ")
	if len(s) > 600 {
		s = s[:600] + "..."
	}
	return s
}

// Catch runs f and reports whether it panicked (and with what).
func Catch(f func()) (panicked bool, val interface{}) {
	defer func() {
		if r := recover(); r != nil {
			panicked = true
			val = r
		}
	}()
	f()
	return
}

// ---- cross-configuration differential runs (C06) ----

// RunDiff drives a differential property whose oracle is "the same case gives
// the same output bytes in every build/CPU configuration".  Each process
// (one per configuration and shard, all with the same rapid seed) appends
// "<key> <sha256(output)>" lines to $VERIF_DIFF_DIR/<test>.<config>.<shard>.txt;
// the driver compares the files across configurations.  exec must be a pure
// function of the case; a panic inside exec is part of the observable
// behaviour and is recorded as the output "PANIC".
func RunDiff[C any](t *testing.T, gen func(*rapid.T) C, exec func(C) (out []byte, classes []string, nontrivial bool)) {
	test := t.Name()
	dir := os.Getenv("VERIF_DIFF_DIR")
	if dir == "" {
		t.Skip("VERIF_DIFF_DIR not set")
	}
	name := fmt.Sprintf("%s.%s.%s.txt", strings.ReplaceAll(test, "/", "_"), os.Getenv("VERIF_CONFIG"), os.Getenv("VERIF_SHARD"))
	f, err := os.Create(filepath.Join(dir, name))
	if err != nil {
		t.Fatalf("VERIF-HARNESS-ERROR %v", err)
	}
	defer f.Close()
	w := bufio.NewWriterSize(f, 1<<16)
	defer w.Flush()
	safe := func(c C) (out []byte, cls []string, nt bool) {
		defer func() {
			if r := recover(); r != nil {
				out, nt = []byte("PANIC"), true
				cls = append(cls, "panicked")
			}
		}()
		return exec(c)
	}
	if rp := os.Getenv("VERIF_REPLAY"); rp != "" {
		b, err := os.ReadFile(rp)
		if err != nil {
			t.Fatalf("VERIF-HARNESS-ERROR cannot read replay: %v", err)
		}
		var rf replayFile
		if err := json.Unmarshal(b, &rf); err != nil {
			t.Fatalf("VERIF-HARNESS-ERROR bad replay file: %v", err)
		}
		if rf.Test != test {
			t.Skipf("replay file is for %s", rf.Test)
		}
		var c C
		if err := json.Unmarshal(rf.Case, &c); err != nil {
			t.Fatalf("VERIF-HARNESS-ERROR bad replay case: %v", err)
		}
		var out []byte
		guarded(test, c, func() { out, _, _ = safe(c) })
		fmt.Fprintf(w, "replay %x %x\n", sha256.Sum256(out), out)
		fmt.Printf("VERIF-REPLAYED test=%s\n", test)
		return
	}
	want := map[string]bool{}
	for _, k := range strings.Split(os.Getenv("VERIF_DIFF_WANT"), ",") {
		if k != "" {
			want[k] = true
		}
	}
	t.Cleanup(func() { flush(test) })
	rapid.Check(t, func(rt *rapid.T) {
		c := gen(rt)
		js, err := json.Marshal(c)
		if err != nil {
			rt.Fatalf("VERIF-HARNESS-ERROR unserialisable case: %v", err)
		}
		kh := sha256.Sum256(js)
		key := hex.EncodeToString(kh[:10])
		var out []byte
		var cls []string
		var nt bool
		guarded(test, c, func() { out, cls, nt = safe(c) })
		fmt.Fprintf(w, "%s %x\n", key, sha256.Sum256(out))
		if want[key] {
			dumpCase(test, c, &Violation{Sig: "diff:backend-mismatch", Detail: "output of this case differs between build/CPU configurations; key " + key})
		}
		record(test, c, Result{Classes: cls, NonTrivial: nt})
	})
}

// ---- native coverage-guided fuzzing (thorough tier) ----

// Fuzz exposes a rapid property as a Go native fuzz target: the fuzzer's byte
// string is rapid's choice sequence (rapid.MakeFuzz), so coverage feedback
// steers the same generator and the same oracle.  A failing input is dumped
// as a replay file exactly as in Run (and Go saves the crasher under
// testdata/fuzz in the scratch cwd).
func Fuzz[C any](f *testing.F, gen func(*rapid.T) C, check func(C) Result) {
	test := f.Name()
	for i := uint64(0); i < 24; i++ {
		f.Add(Expand(i*7919+1, 64+int(i)*40))
	}
	f.Add([]byte{})
	n := 0
	f.Fuzz(rapid.MakeFuzz(func(rt *rapid.T) {
		c := gen(rt)
		res := safeCheck(test, check, c)
		if res.Viol != nil && isKnown(res.Viol.Sig) {
			res.Viol = nil
		}
		if res.Viol != nil {
			path := dumpCase(test, c, res.Viol)
			fmt.Printf("VERIF-VIOLATION test=%s sig=%s replay=%s detail=%s\n", test, res.Viol.Sig, path, oneLine(res.Viol.Detail))
			exitIfAbandoned(test)
			rt.Fatalf("violation: %s: %s", res.Viol.Sig, res.Viol.Detail)
		}
		record(test, c, res)
		n++
		if n%2000 == 0 {
			flush(test)
		}
	}))
}

// ---- the same property under concurrency (package-level scratch state) ----

// ParCase is a group of cases that RunPar checks at the same time.
type ParCase[C any] struct {
	Cases []C `json:"cases"`
}

// RunPar drives a pure per-case check on K generated cases AT THE SAME TIME,
// one goroutine each, rendezvous at the start, several rounds per group.  The
// checks are value oracles of single-threaded properties; they hold under
// concurrency exactly if the code under test keeps no hidden shared state (a
// package-level scratch buffer introduced "to save an allocation" gives wrong
// VALUES as soon as two callers overlap).  A violation found this way is
// schedule-dependent: the replay file holds the whole group and the replay
// repeats it many times.
func RunPar[C any](t *testing.T, k int, gen func(*rapid.T) C, check func(C) Result) {
	g := func(rt *rapid.T) ParCase[C] {
		pc := ParCase[C]{}
		for i := 0; i < k; i++ {
			pc.Cases = append(pc.Cases, gen(rt))
		}
		return pc
	}
	rounds := 4
	if os.Getenv("VERIF_REPLAY") != "" {
		rounds = 400
	}
	chk := func(pc ParCase[C]) Result {
		var out Result
		for round := 0; round < rounds && out.Viol == nil; round++ {
			res := make([]Result, len(pc.Cases))
			var wg sync.WaitGroup
			start := make(chan struct{})
			for i := range pc.Cases {
				wg.Add(1)
				go func(i int) {
					defer wg.Done()
					<-start
					res[i] = recoverCheck(check, pc.Cases[i])
				}(i)
			}
			close(start)
			wg.Wait()
			for i, r1 := range res {
				if round == 0 {
					out.Evals += r1.Evals
					out.Classes = append(out.Classes, r1.Classes...)
				}
				if r1.Viol != nil && out.Viol == nil {
					// does the same case fail on its own?  then it is not a concurrency effect
					if alone := recoverCheck(check, pc.Cases[i]); alone.Viol != nil {
						out.Viol = alone.Viol
					} else {
						out.Viol = &Violation{Sig: r1.Viol.Sig + "(only-when-run-concurrently)", Detail: fmt.Sprintf("case %d of %d run at the same time (round %d) fails although it passes on its own - hidden shared state: %s", i, len(pc.Cases), round, r1.Viol.Detail)}
					}
				}
			}
		}
		out.NonTrivial = true
		out.Classes = append(out.Classes, fmt.Sprintf("concurrent-group-of-%d", len(pc.Cases)))
		return out
	}
	Run(t, g, chk)
}
