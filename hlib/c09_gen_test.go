package verifh

import (
	"crypto/ed25519"
	"strings"
	"testing"

	"pgregory.net/rapid"
	ref "verifref"
)

// The pool generator's construction claims, checked against the reference
// predicate (and Go's crypto/ed25519 for the StdLib flag set): "good" entries
// are accepted, rejected classes are rejected, ground cofactorless entries are
// accepted by the cofactorless equation.
func TestC09PoolConstruction(t *testing.T) {
	seen := map[string]int{}
	rapid.Check(t, func(rt *rapid.T) {
		p, groups := C09GenPool(rt, C09PoolCfg{ND: 2, NO: 2, NSpec: 5, MaxKeys: 8,
			Kinds: []string{"small", "small-nc", "undecodable"}, NegOf0: true})
		if k0, k2 := p.Keys[0].Bytes(), p.Keys[2].Bytes(); k0[31]^k2[31] != 0x80 || string(k0[:31]) != string(k2[:31]) {
			rt.Fatalf("NegOf0: %x vs %x", k0, k2)
		}
		decide := func(b C09Built, o C09Opt) (bool, bool) {
			if len(b.PK) != 32 || !o.Legal(len(b.Msg)) {
				return false, false
			}
			return ref.EdVerifyFlags(o.RefFlags(), o.Variant(), o.Ctx, b.PK, b.Msg, b.Sig), true
		}
		for i, e := range p.Ents {
			b := p.Build(i)
			b2 := p.Build(i)
			if string(b.Sig) != string(b2.Sig) || string(b.PK) != string(b2.PK) || string(b.Msg) != string(b2.Msg) {
				rt.Fatalf("Build is not deterministic")
			}
			got, legal := decide(b, e.Opt)
			seen[e.Cls+map[bool]string{true: ":accept", false: ":reject"}[got]]++
			if legal && e.Opt.EffFlags() == c09PresetFlags[2] && e.Opt.Variant() == ref.EdPure {
				if want := ed25519.Verify(b.PK, b.Msg, b.Sig); want != got {
					rt.Fatalf("entry %d (%s): reference %v, crypto/ed25519 %v", i, e.Cls, got, want)
				}
			}
			switch {
			case i < p.ND:
				d, _ := decide(b, C09Opt{Preset: 1})
				if !got || !d || e.Opt.Cofactorless() {
					rt.Fatalf("good-default entry %d (%s) not accepted: own=%v default=%v", i, e.Cls, got, d)
				}
			case i < p.ND+p.NO:
				if !got || e.Opt.Cofactorless() {
					rt.Fatalf("good-own entry %d (%s) not accepted", i, e.Cls)
				}
			case e.Cls == "cofactorless/valid" || strings.HasPrefix(e.Cls, "cofactorless/grind"):
				if !got {
					rt.Fatalf("entry %d (%s) should be accepted", i, e.Cls)
				}
			case e.Cls == "cofactorless/torsion-R":
				o := e.Opt
				if o.Preset != 0 {
					o = C09Opt{Flags: o.EffFlags()}
				}
				o.Flags &^= C09Cofactorless
				cof, _ := decide(b, o)
				if got || !cof {
					rt.Fatalf("entry %d (%s): cofactorless %v cofactored %v", i, e.Cls, got, cof)
				}
			case strings.HasPrefix(e.Cls, "cancel"), e.Cls == "S+L", e.Cls == "forged", e.Cls == "sig-length",
				strings.HasPrefix(e.Cls, "illegal"), strings.HasPrefix(e.Cls, "rejected"), e.Cls == "wrong-key",
				strings.HasPrefix(e.Cls, "bad-key"):
				if got {
					rt.Fatalf("entry %d (%s) should be rejected", i, e.Cls)
				}
			}
		}
		for _, g := range groups {
			sum := 0
			for _, i := range g {
				if p.Ents[i].SMode == 2 {
					sum += p.Ents[i].Delta
				}
			}
			if sum != 0 {
				rt.Fatalf("cancelling group does not cancel")
			}
		}
	})
	t.Logf("classes: %v", seen)
	for _, want := range []string{"good:accept", "good/ctx:accept", "good/ph:accept", "good/small-A:accept", "good/noncanon-A:accept",
		"good/noncanon-R:accept", "cofactorless/valid:accept", "cofactorless/grind/small-nc:accept", "cofactorless/grind/mixed:accept",
		"cancel+:reject", "rejected/noncanon-A:reject"} {
		if seen[want] == 0 {
			t.Errorf("class %s never generated", want)
		}
	}
}

func TestC09Entropy(t *testing.T) {
	for k := 0; k <= 4; k++ {
		a := C09Entropy{Kind: k, Seed: 5, Chunk: 7}.Reader()
		b := C09Entropy{Kind: k, Seed: 5}.Reader()
		x, y := make([]byte, 200), make([]byte, 200)
		n := 0
		for n < 200 {
			m, err := a.Read(x[n:])
			if err != nil || m == 0 || m > 7 {
				t.Fatal("chunked read")
			}
			n += m
		}
		if m, err := b.Read(y); m != 200 || err != nil {
			t.Fatal("full read")
		}
		if string(x) != string(y) {
			t.Fatalf("kind %d: stream depends on chunking", k)
		}
	}
}
