package verifh

// Generators for property C09 (batch, expanded-key and cached verification
// agree with single verification).
//
// A case carries a *pool*: a handful of public keys and of fully specified
// verification entries (key, message, signature, options).  Signatures are
// produced by hand with the reference (verifref), not with the library, so that
// keys and nonces may carry torsion components, be of small order, or be
// spelled non-canonically:
//
//	A = [a]B + T[jA]      R = [r]B + T[i]      S = r + k*a mod L,
//	k = SHA-512(dom2 || R-bytes || A-bytes || M) mod L  over the bytes as sent.
//
// Then [S]B - [k]A - R = -[k*jA + i]T[1]: always of small order (valid under
// the cofactored equation) and the identity (valid under the cofactorless
// byte comparison) iff k*jA + i = 0 mod 8.  Scalars a and r are small by
// default so that the reference multiplications are cheap; S is full size
// anyway because k is a hash.
//
// Everything here is plain data + pure functions of that data, so that cases
// serialise into replay files.

import (
	"io"
	"math/big"
	"sync"

	"pgregory.net/rapid"
	ref "verifref"
)

// Verification flag bits of C09Opt.Flags.
const (
	C09SmallA = 1 << iota
	C09SmallR
	C09NonCanonA
	C09NonCanonR
	C09Cofactorless
)

// C09Key specifies a public key.
type C09Key struct {
	Kind  string `json:"kind"`  // honest | mixed | small | small-nc | undecodable | wronglen | ncbig
	A     Hex    `json:"a"`     // secret scalar, little endian (ignored if IsRaw)
	J     int    `json:"j"`     // torsion component T[J]
	Enc   int    `json:"enc"`   // 0 canonical; k>0: k-th non-canonical spelling (small-order points only)
	IsRaw bool   `json:"israw"` // key bytes are Raw (no known secret)
	Raw   Hex    `json:"raw"`
}

// C09Opt specifies ed25519.Options in neutral form.
type C09Opt struct {
	Hash   int `json:"hash"`   // 0 crypto.Hash(0); 1 SHA-512; 2 SHA-256 (illegal); 3 SHA-384 (illegal)
	Ctx    Hex `json:"ctx"`    // context; > 255 bytes is illegal
	Preset int `json:"preset"` // -1 Verify == nil; 0 custom Flags; 1 Default; 2 StdLib; 3 FIPS_186_5; 4 ZIP_215
	Flags  int `json:"flags"`  // custom flag bits
}

var c09PresetFlags = map[int]int{
	-1: C09SmallR,
	1:  C09SmallR,
	2:  C09SmallA | C09SmallR | C09NonCanonA | C09Cofactorless,
	3:  C09SmallA | C09SmallR,
	4:  C09SmallA | C09SmallR | C09NonCanonA | C09NonCanonR,
}

// EffFlags resolves presets / nil to the flag bits in effect.
func (o C09Opt) EffFlags() int {
	if o.Preset != 0 {
		return c09PresetFlags[o.Preset]
	}
	return o.Flags & 31
}

// Cofactorless reports whether the options request cofactorless verification.
func (o C09Opt) Cofactorless() bool { return o.EffFlags()&C09Cofactorless != 0 }

// Legal reports whether single verification is documented not to panic.
func (o C09Opt) Legal(msgLen int) bool {
	f := o.EffFlags()
	if f&C09NonCanonR != 0 && f&C09Cofactorless != 0 {
		return false
	}
	if len(o.Ctx) > 255 {
		return false
	}
	switch o.Hash {
	case 0:
		return true
	case 1:
		return msgLen == 64
	}
	return false
}

// Variant is the RFC 8032 variant selected by legal options.
func (o C09Opt) Variant() ref.EdVariant {
	switch {
	case o.Hash == 1:
		return ref.EdPh
	case len(o.Ctx) > 0:
		return ref.EdCtx
	}
	return ref.EdPure
}

// RefFlags converts the flag bits for the reference predicate.
func (o C09Opt) RefFlags() ref.EdFlags {
	f := o.EffFlags()
	return ref.EdFlags{AllowSmallOrderA: f&C09SmallA != 0, AllowSmallOrderR: f&C09SmallR != 0,
		AllowNonCanonicalA: f&C09NonCanonA != 0, AllowNonCanonicalR: f&C09NonCanonR != 0, Cofactorless: f&C09Cofactorless != 0}
}

// C09Ent specifies one verification entry: how the signature is made and
// with what it is verified.
type C09Ent struct {
	Key     int    `json:"key"`  // verification key (index into Keys)
	SKey    int    `json:"skey"` // signing key; != Key is a wrong-key forgery
	R       Hex    `json:"r"`    // nonce scalar r
	I       int    `json:"i"`    // torsion component of R
	REnc    int    `json:"renc"` // non-canonical spelling of R (only when r = 0)
	Grind   bool   `json:"grind"`
	SMode   int    `json:"smode"` // 0 exact; 1 S+L; 2 S+Delta mod L
	Delta   int    `json:"delta"`
	MsgSeed uint64 `json:"msgseed"`
	MsgLen  int    `json:"msglen"`
	Var     int    `json:"var"` // signing variant: 0 pure, 1 ctx, 2 ph
	Ctx     Hex    `json:"sctx"`
	Mut     int    `json:"mut"` // 0 none; 1 message bit; 2 R bit; 3 S bit; 4 len 63; 5 len 65; 6 len 0; 7 len 128; 8 len 32
	MutBit  int    `json:"mutbit"`
	Opt     C09Opt `json:"opt"`
	Cls     string `json:"cls"` // generator's label (informational)
}

// C09Pool is the per-case pool.  Ents[:ND] are, by construction, valid under
// the default options *and* under their own (cofactored) options;
// Ents[ND:ND+NO] are valid under their own cofactored options only.  The
// check never relies on this: it asks single verification.
type C09Pool struct {
	Keys []C09Key `json:"keys"`
	Ents []C09Ent `json:"ents"`
	ND   int      `json:"nd"`
	NO   int      `json:"no"`
}

// C09Built is an entry in concrete bytes.
type C09Built struct {
	PK, Msg, Sig []byte
	Opt          C09Opt
}

// ---- torsion spellings ----

var (
	c09Once    sync.Once
	c09Spell   [8][][]byte // non-canonical spellings of T[j]
	c09NCBig   [][]byte    // non-canonical spellings of points that are not of small order
	c09SpellJs []int       // torsion indices that have a non-canonical spelling
)

func c09Init() {
	c09Once.Do(func() {
		for _, s := range AllNonCanonicalPointStrings() {
			di := ref.Decode(s)
			if !di.OK {
				continue
			}
			if j := ref.TorsionIndex(di.P); j >= 0 {
				c09Spell[j] = append(c09Spell[j], s)
			} else {
				c09NCBig = append(c09NCBig, s)
			}
		}
		for j := range c09Spell {
			if len(c09Spell[j]) > 0 {
				c09SpellJs = append(c09SpellJs, j)
			}
		}
	})
}

// C09Spellings returns the non-canonical spellings of the torsion point T[j].
func C09Spellings(j int) [][]byte { c09Init(); return c09Spell[j&7] }

// ---- memoised reference base multiplications ----

var (
	c09mu sync.Mutex
	c09mb = map[string]ref.Point{}
)

func c09MulBase(s *big.Int) ref.Point {
	key := s.Text(16)
	c09mu.Lock()
	p, ok := c09mb[key]
	c09mu.Unlock()
	if ok {
		return p
	}
	p = ref.MulBase(s)
	c09mu.Lock()
	if len(c09mb) > 20000 {
		c09mb = map[string]ref.Point{}
	}
	c09mb[key] = p
	c09mu.Unlock()
	return p
}

func c09Point(s *big.Int, j int) ref.Point {
	p := c09MulBase(s)
	if j&7 != 0 {
		p = ref.Add(p, ref.Torsion8()[j&7])
	}
	return p
}

func c09EncPoint(s *big.Int, j, enc int) []byte {
	if enc > 0 && s.Sign() == 0 {
		if sp := C09Spellings(j); len(sp) > 0 {
			return append([]byte(nil), sp[(enc-1)%len(sp)]...)
		}
	}
	return c09Point(s, j).Encode()
}

// Bytes returns the key as sent.
func (k C09Key) Bytes() []byte {
	if k.IsRaw {
		return append([]byte{}, k.Raw...)
	}
	return c09EncPoint(ref.SMod(ref.FromLE(k.A)), k.J, k.Enc)
}

func (k C09Key) secret() (*big.Int, int) {
	if k.IsRaw {
		return new(big.Int), 0
	}
	return ref.SMod(ref.FromLE(k.A)), k.J & 7
}

func c09Variant(v int) ref.EdVariant {
	switch v {
	case 1:
		return ref.EdCtx
	case 2:
		return ref.EdPh
	}
	return ref.EdPure
}

// Build turns entry i into bytes (pure function of the pool).
func (p *C09Pool) Build(i int) C09Built {
	e := p.Ents[i]
	vk := p.Keys[e.Key].Bytes()
	sk := p.Keys[e.SKey]
	skb := sk.Bytes()
	a, jA := sk.secret()
	msg := Expand(e.MsgSeed, e.MsgLen)
	v := c09Variant(e.Var)
	ctx := []byte(e.Ctx)
	if v == ref.EdPure {
		ctx = nil
	}
	r := ref.SMod(ref.FromLE(e.R))
	var rb []byte
	var k *big.Int
	if e.Grind {
		// search the torsion component (and, failing that, the nonce) for which
		// the cofactorless equation holds: k*jA + i = 0 mod 8.
		for step := 0; step < 96; step++ {
			rr := new(big.Int).Add(r, big.NewInt(int64(step/8)))
			ii := (e.I + step) & 7
			rb = c09EncPoint(rr, ii, 0)
			k = ref.EdChallenge(v, ctx, rb, skb, msg)
			k8 := int(new(big.Int).And(k, big.NewInt(7)).Int64())
			if (k8*jA+ii)&7 == 0 {
				r = rr
				break
			}
			if step == 95 {
				r = rr
			}
		}
	} else {
		rb = c09EncPoint(r, e.I, e.REnc)
		k = ref.EdChallenge(v, ctx, rb, skb, msg)
	}
	S := ref.SAdd(r, ref.SMul(k, a))
	var sb []byte
	switch e.SMode {
	case 1:
		sb = ref.ToLE(new(big.Int).Add(S, ref.L), 32)
	case 2:
		sb = ref.SEncode(ref.SAdd(S, ref.SMod(big.NewInt(int64(e.Delta)))))
	default:
		sb = ref.SEncode(S)
	}
	sig := append(append([]byte{}, rb...), sb...)
	bit := e.MutBit & 255
	switch e.Mut {
	case 1:
		if len(msg) == 0 {
			msg = []byte{1}
		} else {
			msg[(bit/8)%len(msg)] ^= 1 << uint(bit%8)
		}
	case 2:
		sig[bit/8] ^= 1 << uint(bit%8)
	case 3:
		sig[32+bit/8] ^= 1 << uint(bit%8)
	case 4:
		sig = sig[:63]
	case 5:
		sig = append(sig, byte(bit))
	case 6:
		sig = sig[:0]
	case 7:
		sig = append(sig, sig...)
	case 8:
		sig = sig[:32]
	}
	return C09Built{PK: vk, Msg: msg, Sig: sig, Opt: e.Opt}
}

// ---- entropy ----

// C09Entropy describes a deterministic endless byte stream.
type C09Entropy struct {
	Kind  int    `json:"kind"` // 0 zeros; 1 0xff; 2 counter; 3 a repeated 64-byte block; 4 pseudo-random stream
	Seed  uint64 `json:"seed"`
	Chunk int    `json:"chunk"` // max bytes returned per Read (0 = as many as asked)
}

type c09Reader struct {
	e   C09Entropy
	pos uint64
	blk []byte
}

func (r *c09Reader) Read(p []byte) (int, error) {
	n := len(p)
	if r.e.Chunk > 0 && n > r.e.Chunk {
		n = r.e.Chunk
	}
	for i := 0; i < n; i++ {
		switch r.e.Kind {
		case 0:
			p[i] = 0
		case 1:
			p[i] = 0xff
		case 2:
			p[i] = byte(r.pos + r.e.Seed)
		case 3:
			p[i] = r.blk[r.pos%64]
		default:
			if r.pos%64 == 0 {
				r.blk = Expand(r.e.Seed+r.pos/64*0x1234567, 64)
			}
			p[i] = r.blk[r.pos%64]
		}
		r.pos++
	}
	return n, nil
}

// Reader returns a fresh stream (always yields as many bytes as needed).
func (e C09Entropy) Reader() io.Reader {
	r := &c09Reader{e: e}
	if e.Kind == 3 {
		r.blk = Expand(e.Seed, 64)
	}
	return r
}

// C09GenEntropy draws an entropy description.
func C09GenEntropy(t *rapid.T, label string) C09Entropy {
	return C09Entropy{Kind: rapid.IntRange(0, 4).Draw(t, label+"_ek"), Seed: rapid.Uint64().Draw(t, label+"_es"),
		Chunk: rapid.SampledFrom([]int{0, 0, 1, 7, 31, 32, 33}).Draw(t, label+"_ec")}
}

// ---- generators ----

func c09le(v uint32) Hex { return Hex(ref.ToLE(big.NewInt(int64(v)), 4)) }

func c09SmallScalar(t *rapid.T, label string) Hex {
	if rapid.IntRange(0, 15).Draw(t, label+"_full") == 0 {
		b, _ := ReducedScalar(t, label+"_fs")
		if ref.FromLE(b).Sign() == 0 {
			b[0] = 1
		}
		return b
	}
	return c09le(rapid.Uint32Range(1, 1<<24).Draw(t, label+"_s"))
}

// C09GenKey draws a key of the given kind.
func C09GenKey(t *rapid.T, kind, label string) C09Key {
	c09Init()
	switch kind {
	case "honest":
		return C09Key{Kind: kind, A: c09SmallScalar(t, label)}
	case "mixed":
		return C09Key{Kind: kind, A: c09SmallScalar(t, label), J: rapid.IntRange(1, 7).Draw(t, label+"_j")}
	case "small":
		return C09Key{Kind: kind, A: Hex{0}, J: rapid.IntRange(0, 7).Draw(t, label+"_j")}
	case "small-nc":
		return C09Key{Kind: kind, A: Hex{0}, J: rapid.SampledFrom(c09SpellJs).Draw(t, label+"_j"), Enc: rapid.IntRange(1, 3).Draw(t, label+"_enc")}
	case "undecodable":
		seed := rapid.Uint64().Draw(t, label+"_seed")
		for i := uint64(0); ; i++ {
			b := Expand(seed+i, 32)
			if !ref.Decode(b).OK {
				return C09Key{Kind: kind, IsRaw: true, Raw: b}
			}
		}
	case "wronglen":
		n := rapid.SampledFrom([]int{0, 1, 31, 33, 64}).Draw(t, label+"_n")
		b := Expand(rapid.Uint64().Draw(t, label+"_seed"), n)
		if n >= 32 && rapid.Bool().Draw(t, label+"_pref") {
			// a valid key with trailing garbage / doubled
			copy(b, ref.Base.Encode())
		}
		return C09Key{Kind: kind, IsRaw: true, Raw: b}
	case "ncbig":
		return C09Key{Kind: kind, IsRaw: true, Raw: append([]byte(nil), rapid.SampledFrom(c09NCBig).Draw(t, label+"_nc")...)}
	}
	panic("c09: unknown key kind " + kind)
}

// c09GenOpt draws verification options whose flag set contains must, is
// cofactorless iff must has that bit, and is legal.
func c09GenOpt(t *rapid.T, must int, label string) C09Opt {
	var cand []int
	for _, p := range []int{-1, 1, 2, 3, 4} {
		f := c09PresetFlags[p]
		if f&must == must && (f&C09Cofactorless) == (must&C09Cofactorless) {
			cand = append(cand, p)
		}
	}
	if len(cand) > 0 && rapid.Bool().Draw(t, label+"_usepreset") {
		return C09Opt{Preset: rapid.SampledFrom(cand).Draw(t, label+"_preset")}
	}
	f := must | rapid.IntRange(0, 15).Draw(t, label+"_flags")
	if must&C09Cofactorless != 0 {
		f &^= C09NonCanonR
	}
	return C09Opt{Flags: f}
}

type c09PoolGen struct {
	t *rapid.T
	p *C09Pool
	// maximum number of keys
	maxKeys int
	n       int
}

func (g *c09PoolGen) label(s string) string { g.n++; return s }

// keyOf returns the index of a key of one of the kinds, adding one if needed
// and possible; -1 if impossible.
func (g *c09PoolGen) keyOf(kinds ...string) int {
	var have []int
	for i, k := range g.p.Keys {
		for _, kd := range kinds {
			if k.Kind == kd {
				have = append(have, i)
			}
		}
	}
	if len(have) > 0 && (len(g.p.Keys) >= g.maxKeys || rapid.IntRange(0, 2).Draw(g.t, "reusekey") != 0) {
		return rapid.SampledFrom(have).Draw(g.t, "keyidx")
	}
	if len(g.p.Keys) >= g.maxKeys {
		return -1
	}
	kd := rapid.SampledFrom(kinds).Draw(g.t, "newkeykind")
	g.p.Keys = append(g.p.Keys, C09GenKey(g.t, kd, "newkey"))
	return len(g.p.Keys) - 1
}

func (g *c09PoolGen) base(key int) C09Ent {
	t := g.t
	return C09Ent{Key: key, SKey: key, R: c09SmallScalar(t, "r"), MsgSeed: rapid.Uint64().Draw(t, "msgseed"),
		MsgLen: MsgLen(t, 200, "msg")}
}

func (g *c09PoolGen) torsionI() int {
	if rapid.IntRange(0, 2).Draw(g.t, "tors") == 0 {
		return rapid.IntRange(1, 7).Draw(g.t, "i")
	}
	return 0
}

// goodDefault: pure, prime/mixed-order canonical key, valid under default options
// and under its own cofactored options.
func (g *c09PoolGen) goodDefault() C09Ent {
	t := g.t
	e := g.base(g.keyOf("honest", "mixed"))
	e.I = g.torsionI()
	must := 0
	e.Cls = "good"
	if rapid.IntRange(0, 9).Draw(t, "smallR") == 0 {
		e.R = Hex{0} // R of small order, canonical: allowed by default
		must = C09SmallR
		e.Cls = "good/small-R"
	}
	if e.I != 0 {
		e.Cls += "/torsion-R"
	}
	if g.p.Keys[e.Key].Kind == "mixed" {
		e.Cls += "/mixed-A"
	}
	e.Opt = c09GenOpt(t, must, "opt")
	return e
}

// c09Ctx draws a context.  Two thirds come from a stock of three seeds, so
// that entries of ONE batch - an Ed25519ctx one and an Ed25519ph one in
// particular - often carry the SAME context string (whatever a verifier
// remembers per context must also be keyed by the variant).
func c09Ctx(t *rapid.T, lens []int) Hex {
	seed := rapid.Uint64().Draw(t, "ctxseed")
	if rapid.IntRange(0, 2).Draw(t, "ctxstock") != 0 {
		seed = 1 + seed%3
	}
	return Hex(Expand(seed, rapid.SampledFrom(lens).Draw(t, "ctxlen")))
}

// goodOwn: valid under its own (cofactored) options only.
func (g *c09PoolGen) goodOwn() C09Ent {
	t := g.t
	switch rapid.IntRange(0, 5).Draw(t, "ownkind") {
	case 0: // Ed25519ctx
		e := g.base(g.keyOf("honest", "mixed"))
		e.I = g.torsionI()
		e.Var = 1
		e.Ctx = c09Ctx(t, []int{1, 2, 32, 254, 255})
		e.Opt = c09GenOpt(t, 0, "opt")
		e.Opt.Ctx = e.Ctx
		e.Cls = "good/ctx"
		return e
	case 1: // Ed25519ph
		e := g.base(g.keyOf("honest", "mixed"))
		e.I = g.torsionI()
		e.Var = 2
		e.MsgLen = 64
		e.Ctx = c09Ctx(t, []int{0, 0, 1, 2, 32, 255})
		e.Opt = c09GenOpt(t, 0, "opt")
		e.Opt.Ctx = e.Ctx
		e.Opt.Hash = 1
		e.Cls = "good/ph"
		return e
	case 2: // small-order A, canonical
		k := g.keyOf("small")
		if k < 0 {
			return g.goodDefault()
		}
		e := g.base(k)
		e.I = g.torsionI()
		e.Opt = c09GenOpt(t, C09SmallA, "opt")
		e.Cls = "good/small-A"
		return e
	case 3: // small-order A, non-canonical spelling
		k := g.keyOf("small-nc")
		if k < 0 {
			return g.goodDefault()
		}
		e := g.base(k)
		e.I = g.torsionI()
		e.Opt = c09GenOpt(t, C09SmallA|C09NonCanonA, "opt")
		e.Cls = "good/noncanon-A"
		return e
	case 4: // small-order R spelled non-canonically
		e := g.base(g.keyOf("honest", "mixed"))
		e.R = Hex{0}
		e.I = rapid.SampledFrom(c09SpellJs).Draw(t, "i")
		e.REnc = rapid.IntRange(1, 3).Draw(t, "renc")
		e.Opt = c09GenOpt(t, C09SmallR|C09NonCanonR, "opt")
		e.Cls = "good/noncanon-R"
		return e
	default: // small-order R, custom flags
		e := g.base(g.keyOf("honest", "mixed"))
		e.R = Hex{0}
		e.I = rapid.IntRange(0, 7).Draw(t, "i")
		e.Opt = c09GenOpt(t, C09SmallR, "opt")
		e.Cls = "good/small-R"
		return e
	}
}

// special returns one entry (or a cancelling group) that is interesting on its own.
func (g *c09PoolGen) special() []C09Ent {
	t := g.t
	kind := rapid.IntRange(0, 19).Draw(t, "speckind")
	hk := func() int { return g.keyOf("honest", "mixed") }
	switch kind {
	case 18, 19: // a valid entry, then THE SAME message and signature presented under another key - one that cannot be
		// decoded, has the wrong length, or is simply somebody else's - once or twice in a row.  Whatever a verifier
		// remembers about "the key of the previous entry" (an expansion, a hash prefix) must not survive a key
		// that failed to parse, nor leak into the next entry that names the same bad key again.
		e1 := g.goodDefault()
		k2 := g.keyOf("undecodable", "wronglen", "ncbig")
		if k2 < 0 || rapid.IntRange(0, 3).Draw(t, "otherhonest") == 0 {
			k2 = -1
			for i, k := range g.p.Keys {
				if i != e1.Key && (k.Kind == "honest" || k.Kind == "mixed") {
					k2 = i
				}
			}
		}
		if k2 < 0 || k2 == e1.Key {
			e1.Cls = "replayed-under-key/none"
			return []C09Ent{e1}
		}
		e2 := e1
		e2.Key, e2.SKey = k2, e1.Key
		e2.Cls = "replayed-under-key/" + g.p.Keys[k2].Kind
		switch rapid.IntRange(0, 2).Draw(t, "replays") {
		case 0:
			return []C09Ent{e1, e2}
		case 1:
			return []C09Ent{e1, e2, e2}
		default:
			return []C09Ent{e1, e2, e1, e2, e2}
		}
	case 0: // cofactorless, valid
		e := g.base(g.keyOf("honest"))
		e.Opt = c09GenOpt(t, C09Cofactorless, "opt")
		e.Cls = "cofactorless/valid"
		return []C09Ent{e}
	case 1: // cofactorless requested, R carries torsion: cofactored-valid only
		e := g.base(g.keyOf("honest"))
		e.I = rapid.IntRange(1, 7).Draw(t, "i")
		e.Opt = c09GenOpt(t, C09Cofactorless, "opt")
		e.Cls = "cofactorless/torsion-R"
		return []C09Ent{e}
	case 2: // cofactorless, torsion in A compensated by grinding R
		k := g.keyOf("mixed", "small", "small-nc")
		if k < 0 {
			k = hk()
		}
		e := g.base(k)
		e.Grind = true
		e.I = rapid.IntRange(0, 7).Draw(t, "i")
		must := C09Cofactorless
		switch g.p.Keys[k].Kind {
		case "small":
			must |= C09SmallA
		case "small-nc":
			must |= C09SmallA | C09NonCanonA
		}
		e.Opt = c09GenOpt(t, must, "opt")
		e.Cls = "cofactorless/grind/" + g.p.Keys[k].Kind
		return []C09Ent{e}
	case 3: // S + L
		e := g.goodDefault()
		e.SMode = 1
		e.Cls = "S+L"
		return []C09Ent{e}
	case 4, 5: // cancelling group: deltas summing to zero
		d := rapid.IntRange(1, 1000).Draw(t, "delta")
		e1, e2 := g.goodDefault(), g.goodDefault()
		e1.SMode, e1.Delta, e1.Cls = 2, d, "cancel+"
		e2.SMode, e2.Delta, e2.Cls = 2, -d, "cancel-"
		if rapid.IntRange(0, 3).Draw(t, "triple") == 0 {
			e3 := g.goodDefault()
			e2.Delta = -d - 7
			e3.SMode, e3.Delta, e3.Cls = 2, 7, "cancel+"
			return []C09Ent{e1, e2, e3}
		}
		if rapid.IntRange(0, 3).Draw(t, "samesig") == 0 {
			// identical message/key/nonce: residuals are exactly +d*B and -d*B
			e2 = e1
			e2.Delta, e2.Cls = -d, "cancel-"
		}
		return []C09Ent{e1, e2}
	case 6: // forged
		e := g.goodDefault()
		e.Mut = rapid.IntRange(1, 3).Draw(t, "mut")
		e.MutBit = rapid.IntRange(0, 255).Draw(t, "mutbit")
		e.Cls = "forged"
		return []C09Ent{e}
	case 7: // wrong signature length
		e := g.goodDefault()
		e.Mut = rapid.IntRange(4, 8).Draw(t, "mut")
		e.MutBit = rapid.IntRange(0, 255).Draw(t, "mutbit")
		e.Cls = "sig-length"
		return []C09Ent{e}
	case 8: // illegal options: single verification is documented to panic
		e := g.goodDefault()
		switch rapid.IntRange(0, 4).Draw(t, "illegal") {
		case 0:
			e.Opt.Ctx = Hex(Expand(1, rapid.SampledFrom([]int{256, 257, 300, 1000}).Draw(t, "ctxlen")))
			e.Cls = "illegal/ctx>255"
		case 1:
			e.Opt.Hash = rapid.IntRange(2, 3).Draw(t, "hash")
			e.Cls = "illegal/hash"
		case 2:
			e.Opt = C09Opt{Flags: C09NonCanonR | C09Cofactorless | rapid.IntRange(0, 7).Draw(t, "flags")}
			e.Cls = "illegal/flag-pair"
		case 3:
			e.Opt.Hash = 1 // ph with a message that is not 64 bytes
			if e.MsgLen == 64 {
				e.MsgLen = 63
			}
			e.Cls = "illegal/ph-length"
		default:
			// illegal flags AND otherwise malformed input
			e.Opt = C09Opt{Flags: C09NonCanonR | C09Cofactorless | C09SmallR}
			e.Mut = 4
			e.Cls = "illegal/flag-pair+short"
		}
		return []C09Ent{e}
	case 9: // signed by another key
		e := g.goodDefault()
		k2 := hk()
		if k2 == e.Key {
			for i, k := range g.p.Keys {
				if i != e.Key && (k.Kind == "honest" || k.Kind == "mixed") {
					k2 = i
				}
			}
		}
		e.SKey = k2
		if e.SKey == e.Key {
			e.Mut, e.MutBit = 3, 0
		}
		e.Cls = "wrong-key"
		return []C09Ent{e}
	case 10: // key that cannot verify anything
		k := g.keyOf("undecodable", "wronglen", "ncbig")
		if k < 0 {
			e := g.goodDefault()
			e.Mut = 2
			e.Cls = "forged"
			return []C09Ent{e}
		}
		e := g.base(k)
		e.Opt = c09GenOpt(t, rapid.SampledFrom([]int{0, 0, C09Cofactorless, C09SmallA | C09NonCanonA}).Draw(t, "must"), "opt")
		e.Cls = "bad-key/" + g.p.Keys[k].Kind
		return []C09Ent{e}
	case 11: // small-order A without AllowSmallOrderA
		k := g.keyOf("small", "small-nc")
		if k < 0 {
			return []C09Ent{g.goodDefault()}
		}
		e := g.base(k)
		e.Opt = C09Opt{Flags: rapid.IntRange(0, 15).Draw(t, "flags") &^ C09SmallA}
		if rapid.Bool().Draw(t, "usedefault") {
			e.Opt = C09Opt{Preset: rapid.SampledFrom([]int{-1, 1}).Draw(t, "preset")}
		}
		e.Cls = "rejected/small-A"
		return []C09Ent{e}
	case 12: // non-canonical A without AllowNonCanonicalA (small order allowed)
		k := g.keyOf("small-nc")
		if k < 0 {
			return []C09Ent{g.goodDefault()}
		}
		e := g.base(k)
		e.Opt = C09Opt{Flags: (rapid.IntRange(0, 15).Draw(t, "flags") | C09SmallA) &^ C09NonCanonA}
		if rapid.Bool().Draw(t, "usefips") {
			e.Opt = C09Opt{Preset: 3}
		}
		e.Cls = "rejected/noncanon-A"
		return []C09Ent{e}
	case 13: // cross-variant
		e := g.goodOwn()
		switch rapid.IntRange(0, 2).Draw(t, "cross") {
		case 0:
			e.Opt.Ctx, e.Opt.Hash = nil, 0
		case 1:
			e.Opt.Ctx = Hex("other context")
		default:
			e.Opt.Hash = 1 - (e.Opt.Hash & 1)
			if rapid.Bool().Draw(t, "len64") {
				e.MsgLen = 64
			}
		}
		e.Cls = "cross-variant"
		return []C09Ent{e}
	case 14: // small-order R without AllowSmallOrderR
		e := g.base(hk())
		e.R = Hex{0}
		e.I = rapid.IntRange(0, 7).Draw(t, "i")
		e.Opt = C09Opt{Flags: rapid.IntRange(0, 31).Draw(t, "flags") &^ (C09SmallR | C09NonCanonR)}
		e.Cls = "rejected/small-R"
		return []C09Ent{e}
	case 15: // non-canonical R without AllowNonCanonicalR
		e := g.base(hk())
		e.R = Hex{0}
		e.I = rapid.SampledFrom(c09SpellJs).Draw(t, "i")
		e.REnc = rapid.IntRange(1, 3).Draw(t, "renc")
		e.Opt = C09Opt{Flags: (rapid.IntRange(0, 31).Draw(t, "flags") | C09SmallR) &^ C09NonCanonR}
		e.Cls = "rejected/noncanon-R"
		return []C09Ent{e}
	default: // anything goes
		e := g.base(rapid.IntRange(0, len(g.p.Keys)-1).Draw(t, "key"))
		e.I = rapid.IntRange(0, 7).Draw(t, "i")
		e.Grind = rapid.IntRange(0, 3).Draw(t, "grind") == 0
		e.Opt = C09Opt{Flags: rapid.IntRange(0, 31).Draw(t, "flags")}
		if rapid.IntRange(0, 2).Draw(t, "usepreset") == 0 {
			e.Opt = C09Opt{Preset: rapid.SampledFrom([]int{-1, 1, 2, 3, 4}).Draw(t, "preset")}
		}
		e.Cls = "random"
		return []C09Ent{e}
	}
}

// C09PoolCfg steers C09GenPool.
type C09PoolCfg struct {
	ND, NO, NSpec int      // numbers of good-default, good-own and special entries (groups)
	MaxKeys       int      // key budget
	Kinds         []string // kinds of keys created up front (after two honest/mixed ones)
	NegOf0        bool     // also create -Keys[0]: same y, opposite sign bit (as third key)
}

// C09GenPool draws a pool.  Groups returns for each special group the indices
// of its entries (a cancelling group has 2 or 3).
func C09GenPool(t *rapid.T, cfg C09PoolCfg) (C09Pool, [][]int) {
	c09Init()
	var p C09Pool
	g := &c09PoolGen{t: t, p: &p, maxKeys: cfg.MaxKeys}
	p.Keys = append(p.Keys, C09GenKey(t, "honest", "k0"))
	p.Keys = append(p.Keys, C09GenKey(t, rapid.SampledFrom([]string{"honest", "mixed", "mixed"}).Draw(t, "k1kind"), "k1"))
	if cfg.NegOf0 && len(p.Keys) < cfg.MaxKeys {
		a := ref.SMod(ref.FromLE(p.Keys[0].A))
		p.Keys = append(p.Keys, C09Key{Kind: "honest", A: Hex(ref.SEncode(ref.SNeg(a)))})
	}
	for _, kd := range cfg.Kinds {
		if len(p.Keys) < cfg.MaxKeys {
			p.Keys = append(p.Keys, C09GenKey(t, kd, "kx"))
		}
	}
	for i := 0; i < cfg.ND; i++ {
		p.Ents = append(p.Ents, g.goodDefault())
	}
	p.ND = len(p.Ents)
	for i := 0; i < cfg.NO; i++ {
		e := g.goodOwn()
		p.Ents = append(p.Ents, e)
	}
	p.NO = len(p.Ents) - p.ND
	var groups [][]int
	for i := 0; i < cfg.NSpec; i++ {
		var idx []int
		for _, e := range g.special() {
			idx = append(idx, len(p.Ents))
			p.Ents = append(p.Ents, e)
		}
		groups = append(groups, idx)
	}
	return p, groups
}
