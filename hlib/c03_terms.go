package verifh

// Generators and the reference-side arithmetic for property C03 (group law and
// every scalar-multiplication routine).
//
// A term is s*P with P = [a]B + T[j] known by construction (PointSpec), so
//
//	sum s_i*P_i = [sum s_i*a_i mod L]B + T[sum s_i*j_i mod 8]
//
// (B has order L, T[1] has order 8, T[j] = [j]T[1]).  The expected value of a
// sum with hundreds of terms therefore costs one reference scalar
// multiplication; s_i is the *integer* value of the 255-bit scalar, which may
// be >= L.

import (
	"fmt"
	"math/big"
	"os"

	"pgregory.net/rapid"
	ref "verifref"
)

// C03Term is one term S*P of a (multi)scalar multiplication.
type C03Term struct {
	P  PointSpec `json:"p"`
	S  Hex       `json:"s"`  // 32 bytes little endian, value < 2^255, possibly >= L
	SC string    `json:"sc"` // scalar class (from the generator; informational)
}

// Term counts that every multiscalar test must hit.
var (
	C03SmallN = []int{0, 1, 2, 3, 8, 20}
	C03LargeN = []int{189, 190, 191, 192, 499, 500, 501, 799, 800, 801}
)

// C03IsThresholdN reports whether n sits on an algorithm/window threshold (or is
// the degenerate empty sum).
func C03IsThresholdN(n int) bool {
	switch n {
	case 0, 189, 190, 191, 192, 499, 500, 501, 799, 800, 801:
		return true
	}
	return false
}

// C03GenScalar draws a 255-bit scalar: the shared boundary catalogue plus
// repeating w-bit window patterns that drive the signed radix-2^w / radix-16 /
// NAF recodings into their extreme digits and longest carry chains.
func C03GenScalar(t *rapid.T, label string) (Hex, string) {
	if rapid.IntRange(0, 4).Draw(t, label+"_wp") != 0 {
		b, c := Scalar255(t, label)
		return b, c
	}
	w := uint(rapid.IntRange(4, 8).Draw(t, label+"_w"))
	half := uint64(1) << (w - 1)
	win := rapid.SampledFrom([]uint64{half, half - 1, 2*half - 1, 1, half + 1, half - 2, 2*half - 2}).Draw(t, label+"_win")
	alt := win
	if rapid.Bool().Draw(t, label+"_alt") {
		alt = rapid.SampledFrom([]uint64{half, half - 1, 2*half - 1, 0}).Draw(t, label+"_win2")
	}
	off := uint(rapid.IntRange(0, int(w)-1).Draw(t, label+"_off"))
	v := new(big.Int)
	for i, pos := 0, off; pos < 255; i, pos = i+1, pos+w {
		x := win
		if i%2 == 1 {
			x = alt
		}
		v.Or(v, new(big.Int).Lsh(new(big.Int).SetUint64(x), pos))
	}
	if rapid.Bool().Draw(t, label+"_low") && off > 0 {
		v.Or(v, new(big.Int).Sub(pow2(off), big.NewInt(1)))
	}
	b := le32(v)
	b[31] &= 0x7f
	return b, fmt.Sprintf("wpattern%d", w)
}

// C03GenPoint draws a point by construction.  even restricts the torsion
// component to E[4] (the points that represent ristretto255 elements).
func C03GenPoint(t *rapid.T, label string, cheap, even bool) PointSpec {
	ps := GenPointSpec(t, label, cheap)
	if rapid.IntRange(0, 13).Draw(t, label+"_isB") == 0 {
		// the base point itself (the harness then hands the library its exported object in some of the cases)
		return PointSpec{A: Hex{1}, J: 0, Cls: "prime-order/basepoint"}
	}
	if rapid.IntRange(0, 15).Draw(t, label+"_neg") == 0 && !ps.IsSmallOrder() {
		// a "negative" discrete log: L - a (same cost class as a large scalar)
		a := new(big.Int).Sub(ref.L, ps.AModL())
		ps.A = Hex(ref.ToLE(a, 32))
		ps.Cls += "/neg"
	}
	if even && ps.J%2 != 0 {
		ps.J = (ps.J + 1) % 8
		switch {
		case ps.J == 0 && ps.IsSmallOrder():
			ps.Cls = "identity"
		case ps.J == 0:
			ps.Cls = "prime-order"
		}
	}
	return ps
}

// C03GenTerms draws n terms.  Some terms deliberately repeat an earlier point
// (optionally with the same or the negated scalar) so that bucket methods add a
// point to itself or to its inverse.
func C03GenTerms(t *rapid.T, n int, cheap, even bool) []C03Term {
	terms := make([]C03Term, 0, n)
	for i := 0; i < n; i++ {
		var tm C03Term
		dup := i > 0 && rapid.IntRange(0, 9).Draw(t, "dup") == 0
		if dup {
			src := terms[rapid.IntRange(0, i-1).Draw(t, "dupi")]
			tm.P = src.P
			switch rapid.IntRange(0, 2).Draw(t, "dupk") {
			case 0:
				tm.S, tm.SC = append(Hex(nil), src.S...), src.SC
			case 1: // L - (s mod L): the two terms cancel exactly when P is torsion-free
				tm.S, tm.SC = Hex(ref.SEncode(ref.SNeg(ref.FromLE(src.S)))), "negdup"
			default:
				tm.S, tm.SC = C03GenScalar(t, "s")
			}
		} else {
			tm.P = C03GenPoint(t, "p", cheap, even)
			tm.S, tm.SC = C03GenScalar(t, "s")
		}
		terms = append(terms, tm)
	}
	// Scalar-size PROFILE of the whole call (one term in eight calls): the
	// multiscalar routines may size their work by the longest scalar of the call,
	// so "every scalar is short" is a class of its own that a mix of edge-case
	// scalars never produces (one full-size scalar restores the full-size path).
	// All scalars get the same byte length n (multiples of the Pippenger
	// windows, 6 and 7 bits, included), most with the top bit of byte n-1 set.
	if n > 0 && rapid.IntRange(0, 7).Draw(t, "profile") == 0 {
		nb := rapid.SampledFrom([]int{1, 2, 3, 6, 7, 8, 9, 12, 14, 15, 16, 18, 21, 24, 27, 28, 30, 31}).Draw(t, "shortbytes")
		for i := range terms {
			b := make([]byte, 32)
			copy(b, UniformBytes(t, nb, "short"))
			switch rapid.IntRange(0, 3).Draw(t, "shorttop") {
			case 0:
			case 1:
				b[nb-1] = 0xff
			default:
				b[nb-1] |= 0x80
			}
			terms[i].S, terms[i].SC = Hex(b), fmt.Sprintf("all-short-%dB", nb)
		}
	}
	return terms
}

// C03Decomp returns (sum s_i*a_i mod L, sum s_i*j_i mod 8).
func C03Decomp(terms []C03Term) (*big.Int, int) {
	k := new(big.Int)
	j := new(big.Int)
	for _, tm := range terms {
		s := ref.FromLE(tm.S)
		k.Add(k, new(big.Int).Mul(s, ref.FromLE(tm.P.A)))
		j.Add(j, new(big.Int).Mul(s, big.NewInt(int64(tm.P.J))))
	}
	k.Mod(k, ref.L)
	j.Mod(j, big.NewInt(8))
	return k, int(j.Int64())
}

// C03OracleFailure reports an inconsistency *inside the oracle* (two
// independent reference computations disagree).  That is a harness failure,
// never a violation of the property: the marker makes the driver exit 2.
func C03OracleFailure(format string, a ...interface{}) {
	fmt.Printf("VERIF-HARNESS-ERROR C03 oracle self-check failed: "+format+"\n", a...)
	os.Exit(3)
}

// C03Expected computes sum s_i*P_i on the reference side.  The fast path is
// the decomposition evaluated with the windowed fixed-base reference; with
// direct=true the same value is recomputed (a) by the plain double-and-add
// MulBase on the decomposed scalar and (b) term by term with affine scalar
// multiplications of the actual points, and all three must agree.
func C03Expected(terms []C03Term, direct bool) ref.Point {
	k, j := C03Decomp(terms)
	want := ref.C03BasePlusTorsion(k, j)
	if direct {
		plain := ref.MulBase(k)
		if j != 0 {
			plain = ref.Add(plain, ref.Torsion8()[j])
		}
		if !plain.Equal(want) {
			C03OracleFailure("windowed vs plain fixed-base, k=%v j=%d", k, j)
		}
		acc := ref.Identity()
		for _, tm := range terms {
			acc = ref.Add(acc, ref.Mul(ref.FromLE(tm.S), tm.P.Ref()))
		}
		if !acc.Equal(want) {
			C03OracleFailure("decomposition vs term-by-term sum, terms=%v", terms)
		}
	}
	return want
}

// C03Points returns the affine reference points of the terms (one shared
// inversion).
func C03Points(terms []C03Term) []ref.Point {
	ks := make([]*big.Int, len(terms))
	js := make([]int, len(terms))
	for i, tm := range terms {
		ks[i] = ref.FromLE(tm.P.A)
		js[i] = tm.P.J
	}
	return ref.C03BasePlusTorsionBatch(ks, js)
}

// C03SpecPoint is the affine reference point of one spec (fast path).
func C03SpecPoint(ps PointSpec) ref.Point {
	return ref.C03BasePlusTorsion(ref.FromLE(ps.A), ps.J)
}

// C03TermsNonTrivial implements the non-trivial rule of C03 for a term list:
// some scalar is unreduced or comes from a boundary class, or some point is
// the identity / a torsion point / of mixed order, or the count is at a
// threshold.
func C03TermsNonTrivial(terms []C03Term) bool {
	if C03IsThresholdN(len(terms)) {
		return true
	}
	for _, tm := range terms {
		if C03ScalarNonTrivial(tm.S, tm.SC) || C03PointNonTrivial(tm.P) {
			return true
		}
	}
	return false
}

func C03ScalarNonTrivial(s []byte, cls string) bool {
	if ref.FromLE(s).Cmp(ref.L) >= 0 {
		return true
	}
	switch cls {
	case "reduced", "anybits", "uniform", "highbit":
		return false
	}
	return true
}

func C03PointNonTrivial(ps PointSpec) bool { return ps.J%8 != 0 || ps.IsSmallOrder() }

// C03TermClasses summarises a term list for the class histogram.
func C03TermClasses(terms []C03Term) []string {
	seen := map[string]bool{}
	var out []string
	add := func(c string) {
		if !seen[c] {
			seen[c] = true
			out = append(out, c)
		}
	}
	for _, tm := range terms {
		add("s:" + tm.SC)
		if ref.FromLE(tm.S).Cmp(ref.L) >= 0 {
			add("s>=L")
		}
		switch {
		case tm.P.IsIdentity():
			add("p:identity")
		case tm.P.IsSmallOrder():
			add("p:torsion")
		case tm.P.J%8 != 0:
			add("p:mixed-order")
		default:
			add("p:prime-order")
		}
	}
	return out
}

// C03UniformIndex draws an index in [0, n) that is (close to) uniformly
// distributed.  rapid's own integer generators are deliberately biased towards
// small values, which would starve the last entries of a short list of
// must-hit values; two biased 64-bit draws are hashed together instead.
func C03UniformIndex(t *rapid.T, n int, label string) int {
	a := rapid.Uint64().Draw(t, label+"_ua")
	b := rapid.Uint64().Draw(t, label+"_ub")
	x := Expand(a^(b<<32|b>>32)^0x5bd1e995, 8)
	v := uint64(0)
	for i := 0; i < 8; i++ {
		v |= uint64(x[i]) << (8 * uint(i))
	}
	return int(v % uint64(n))
}
