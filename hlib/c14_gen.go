package verifh

// Generators for C14 (hash-to-curve): domain-separation tags around the
// 255-byte limit, output lengths around multiples of the digest size and the
// RFC 9380 abort thresholds, and field elements / wide integers hitting the
// special inputs of the Elligator 2 map.

import (
	"math/big"

	"pgregory.net/rapid"
	ref "verifref"
)

// C14DSTLens is the DESIGN.md catalogue of tag lengths.
var C14DSTLens = []int{0, 1, 16, 254, 255, 256, 257, 1000}

// C14DST draws a domain-separation tag: catalogue length (mostly) or uniform
// 0..600, content printable / random / constant.
func C14DST(t *rapid.T, label string) []byte {
	var n int
	if rapid.IntRange(0, 4).Draw(t, label+"_dk") == 0 {
		n = rapid.IntRange(0, 600).Draw(t, label+"_dn")
	} else {
		n = rapid.SampledFrom(C14DSTLens).Draw(t, label+"_dl")
	}
	b := make([]byte, n)
	switch rapid.IntRange(0, 3).Draw(t, label+"_dc") {
	case 0:
		copy(b, Expand(rapid.Uint64().Draw(t, label+"_ds"), n))
		for i := range b {
			b[i] = 0x20 + b[i]%95
		}
	case 1:
		for i := range b {
			b[i] = 0xff
		}
	default:
		copy(b, Expand(rapid.Uint64().Draw(t, label+"_ds"), n))
	}
	return b
}

// C14OutLen draws a requested output length for an expander whose natural
// block is b bytes (digest size for XMD, sponge rate for XOF): the DESIGN.md
// catalogue {1, b-1, b, b+1, 2b, 2b+1, 255b, 255b+1, 65535, 65536, 0}, the
// suite sizes 48/64/96, lengths around every multiple of b, and uniform.
func C14OutLen(t *rapid.T, b int, label string) (int, string) {
	k := rapid.IntRange(0, 19).Draw(t, label+"_ok")
	switch {
	case k < 8:
		cat := []int{1, b - 1, b, b + 1, 2 * b, 2*b + 1, 255 * b, 255*b + 1, 65535, 65536, 0, 254 * b, 255*b - 1, 256 * b, 65534, 65537, 70000}
		return cat[rapid.IntRange(0, len(cat)-1).Draw(t, label+"_oc")], "catalogue"
	case k < 10:
		return rapid.SampledFrom([]int{48, 64, 96}).Draw(t, label+"_os"), "suite-size"
	case k < 15:
		m := rapid.IntRange(1, 12).Draw(t, label+"_om")
		if rapid.IntRange(0, 3).Draw(t, label+"_ow") == 0 {
			m = rapid.IntRange(1, 256).Draw(t, label+"_om2")
		}
		n := m*b + rapid.IntRange(-2, 2).Draw(t, label+"_oe")
		if n < 0 {
			n = 0
		}
		return n, "near-multiple"
	case k < 18:
		return rapid.IntRange(1, 4*b).Draw(t, label+"_ou"), "uniform-small"
	default:
		return rapid.IntRange(1, 66000).Draw(t, label+"_ou2"), "uniform-any"
	}
}

var (
	c14J = big.NewInt(486662)
)

// C14SpecialU lists, by name, the field elements u (canonical, one of each
// +-pair) on which the composed map Elligator 2 -> Montgomery -> Edwards is
// special: the exceptional input 0, +-1, sqrt(-1), and the u (if any) that
// are sent to the Montgomery points with s = 1 (order 4; Edwards y = 0) and
// s = -1 (would be exceptional; no such u exists on curve25519).  Computed,
// not transcribed.
func C14SpecialU() map[string]*big.Int {
	out := map[string]*big.Int{
		"zero":   big.NewInt(0),
		"one":    big.NewInt(1),
		"sqrtm1": new(big.Int).Set(ref.SqrtM1),
	}
	half := ref.FInv(big.NewInt(2))
	add := func(name string, usq *big.Int) {
		if r, ok := ref.FSqrt(usq); ok {
			out[name] = r
		}
	}
	// x1 = -J/(1+2u^2) = c  <=>  u^2 = (-J/c - 1)/2 ;  x2 = -x1 - J = c  <=>  x1 = -c - J.
	for _, c := range []struct {
		name string
		s    *big.Int
	}{{"s=1", big.NewInt(1)}, {"s=-1", ref.FNeg(big.NewInt(1))}, {"s=-J", ref.FNeg(c14J)}, {"s=9", big.NewInt(9)}} {
		add(c.name+"/x1", ref.FMul(ref.FSub(ref.FDiv(ref.FNeg(c14J), c.s), big.NewInt(1)), half))
		x1 := ref.FSub(ref.FNeg(c.s), c14J)
		if x1.Sign() != 0 {
			add(c.name+"/x2", ref.FMul(ref.FSub(ref.FDiv(ref.FNeg(c14J), x1), big.NewInt(1)), half))
		}
	}
	return out
}

var c14SpecialNames []string
var c14Special map[string]*big.Int

func c14InitSpecial() {
	if c14Special != nil {
		return
	}
	c14Special = C14SpecialU()
	for _, n := range []string{"zero", "one", "sqrtm1", "s=1/x1", "s=1/x2", "s=-1/x1", "s=-1/x2", "s=-J/x1", "s=-J/x2", "s=9/x1", "s=9/x2"} {
		if _, ok := c14Special[n]; ok {
			c14SpecialNames = append(c14SpecialNames, n)
		}
	}
}

// C14FieldBytes draws a 32-byte little-endian string with bit 255 clear whose
// value (possibly >= p, i.e. a non-canonical alias) is an interesting input to
// the map, plus its class.
func C14FieldBytes(t *rapid.T, label string) ([]byte, string) {
	c14InitSpecial()
	k := rapid.IntRange(0, 11).Draw(t, label+"_fk")
	var v *big.Int
	var cls string
	switch k {
	case 0, 1, 2: // special values, +-, canonical or aliased by +p when that fits in 255 bits
		n := rapid.SampledFrom(c14SpecialNames).Draw(t, label+"_sp")
		v = new(big.Int).Set(c14Special[n])
		cls = "special:" + n
		if rapid.Bool().Draw(t, label+"_neg") {
			v = ref.FNeg(v)
			cls += "/neg"
		}
		if v.Cmp(big.NewInt(19)) < 0 && rapid.Bool().Draw(t, label+"_alias") {
			v.Add(v, ref.P)
			cls += "/noncanonical"
		}
	case 3: // small
		v = big.NewInt(int64(rapid.IntRange(0, 64).Draw(t, label+"_sm")))
		cls = "small"
	case 4: // p - small
		v = new(big.Int).Sub(ref.P, big.NewInt(int64(rapid.IntRange(1, 64).Draw(t, label+"_ps"))))
		cls = "p-small"
	case 5: // all 19 non-canonical aliases p..2^255-1
		v = new(big.Int).Add(ref.P, big.NewInt(int64(rapid.IntRange(0, 18).Draw(t, label+"_nc"))))
		cls = "noncanonical"
	case 6, 7: // boundary catalogue of 256-bit integers, bit 255 cleared
		x, c := Int256(t, label+"_cat")
		v = new(big.Int).SetBit(x, 255, 0)
		cls = "cat:" + c
	default:
		v = new(big.Int).SetBytes(UniformBytes(t, 32, label+"_u"))
		v.SetBit(v, 255, 0)
		cls = "uniform"
	}
	return ref.ToLE(v, 32), cls
}

// C14Wide48 draws a 48-byte BIG-endian string (one hash_to_field chunk,
// L = 48) whose value mod p is interesting: k*p + e for k up to the largest
// multiple below 2^384, powers of two around 2^255/2^256, all-ones, uniform.
func C14Wide48(t *rapid.T, label string) ([]byte, string) {
	c14InitSpecial()
	max := new(big.Int).Sub(new(big.Int).Lsh(big.NewInt(1), 384), big.NewInt(1))
	kmax := new(big.Int).Div(max, ref.P)
	var v *big.Int
	var cls string
	switch rapid.IntRange(0, 9).Draw(t, label+"_wk") {
	case 0, 1, 2: // k*p + special
		var k *big.Int
		switch rapid.IntRange(0, 4).Draw(t, label+"_kk") {
		case 0:
			k = big.NewInt(0)
		case 1:
			k = big.NewInt(int64(rapid.IntRange(1, 40).Draw(t, label+"_ks")))
		case 2:
			k = new(big.Int).Sub(kmax, big.NewInt(int64(rapid.IntRange(0, 3).Draw(t, label+"_kt"))))
		default:
			k = new(big.Int).SetBytes(UniformBytes(t, 17, label+"_kr"))
			k.Mod(k, kmax)
		}
		n := rapid.SampledFrom(c14SpecialNames).Draw(t, label+"_sp")
		e := new(big.Int).Set(c14Special[n])
		cls = "kp+special:" + n
		if rapid.Bool().Draw(t, label+"_neg") {
			e = ref.FNeg(e)
			cls += "/neg"
		}
		v = new(big.Int).Mul(k, ref.P)
		v.Add(v, e)
	case 3: // k*p + small e (both signs)
		k := new(big.Int).SetBytes(UniformBytes(t, 17, label+"_kr"))
		k.Mod(k, kmax)
		if rapid.Bool().Draw(t, label+"_ktop") {
			k.Set(kmax)
		}
		v = new(big.Int).Mul(k, ref.P)
		v.Add(v, big.NewInt(int64(rapid.IntRange(-3, 3).Draw(t, label+"_e"))))
		cls = "kp+e"
	case 4: // 2^j + e
		j := rapid.SampledFrom([]uint{0, 8, 51, 64, 127, 128, 192, 254, 255, 256, 257, 260, 319, 320, 383}).Draw(t, label+"_j")
		v = new(big.Int).Lsh(big.NewInt(1), j)
		v.Add(v, big.NewInt(int64(rapid.IntRange(-20, 20).Draw(t, label+"_e"))))
		cls = "2^j+e"
	case 5: // top of the range / byte patterns
		pat := rapid.SampledFrom([]byte{0xff, 0x80, 0x7f, 0x00, 0x01, 0xfe}).Draw(t, label+"_pat")
		b := make([]byte, 48)
		for i := range b {
			b[i] = pat
		}
		n := rapid.IntRange(0, 3).Draw(t, label+"_np")
		for i := 0; i < n; i++ {
			b[rapid.IntRange(0, 47).Draw(t, label+"_pi")] = rapid.Byte().Draw(t, label+"_pv")
		}
		return b, "pattern"
	default:
		return UniformBytes(t, 48, label+"_u"), "uniform"
	}
	if v.Sign() < 0 {
		v.Neg(v)
	}
	if v.Cmp(max) > 0 {
		v.Set(max)
	}
	out := make([]byte, 48)
	v.FillBytes(out)
	return out, cls
}
