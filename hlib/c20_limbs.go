package verifh

import (
	"fmt"
	"reflect"
)

// C20Limbs returns the raw limbs of a library value as uint64s, read purely
// by reflection (no library code runs on the value path).  v may be
//
//   - an array or slice of unsigned integers (unpackedScalar, int512,
//     [96]uint8, [4]uint64 ...), possibly nested ([5][8]uint32 is flattened
//     row-major), or
//   - a struct (or pointer to one) that has a field named "inner" holding such
//     an array (field.Element, scalar.Scalar, fieldElement2625x4 ...);
//     "inner" is followed recursively.
//
// Unexported fields are readable through reflect.Value.Uint.
func C20Limbs(v interface{}) []uint64 {
	var out []uint64
	c20flatten(reflect.ValueOf(v), &out, 0)
	return out
}

func c20flatten(rv reflect.Value, out *[]uint64, depth int) {
	if depth > 8 {
		panic("verifh.C20Limbs: nesting too deep")
	}
	switch rv.Kind() {
	case reflect.Ptr, reflect.Interface:
		if rv.IsNil() {
			panic("verifh.C20Limbs: nil pointer")
		}
		c20flatten(rv.Elem(), out, depth+1)
	case reflect.Struct:
		f := rv.FieldByName("inner")
		if !f.IsValid() {
			panic(fmt.Sprintf("verifh.C20Limbs: %s has no field \"inner\"", rv.Type()))
		}
		c20flatten(f, out, depth+1)
	case reflect.Array, reflect.Slice:
		for i := 0; i < rv.Len(); i++ {
			c20flatten(rv.Index(i), out, depth+1)
		}
	case reflect.Uint8, reflect.Uint16, reflect.Uint32, reflect.Uint64, reflect.Uint, reflect.Uintptr:
		*out = append(*out, rv.Uint())
	default:
		panic(fmt.Sprintf("verifh.C20Limbs: unsupported kind %s", rv.Kind()))
	}
}
