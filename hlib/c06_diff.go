package verifh

// C06: operation registries for the cross-configuration differential
// (RunDiff).  A package's workload is a list of DiffOp; a case names one
// operation and carries its generated arguments as plain data, so that the
// very same case is generated in every build/CPU configuration (the
// generators below never look at anything the library under test returns)
// and a replay file re-executes exactly one operation.

import (
	"bufio"
	"bytes"
	"encoding/binary"
	"fmt"
	"os"
	"path/filepath"
	"sort"
	"strings"
	"testing"

	"pgregory.net/rapid"
	ref "verifref"
)

// DiffCase is one workload item: operation name plus byte-string and integer
// arguments in the order the operation's generator produced them.
type DiffCase struct {
	Op string `json:"op"`
	B  []Hex  `json:"b,omitempty"`
	N  []int  `json:"n,omitempty"`
}

// PutB / PutN append generated arguments (generator side).
func (c *DiffCase) PutB(b []byte) { c.B = append(c.B, Hex(append([]byte{}, b...))) }
func (c *DiffCase) PutN(n int)    { c.N = append(c.N, n) }

// DiffArgs is the cursor over a case's arguments (executor side).  Running
// past the end yields empty/zero values (a hand-edited replay file must not
// crash the harness).
type DiffArgs struct {
	c      *DiffCase
	bi, ni int
}

// B returns a private copy of the next byte-string argument.
func (a *DiffArgs) B() []byte {
	if a.bi >= len(a.c.B) {
		return []byte{}
	}
	b := append([]byte{}, a.c.B[a.bi]...)
	a.bi++
	return b
}

// N returns the next integer argument.
func (a *DiffArgs) N() int {
	if a.ni >= len(a.c.N) {
		return 0
	}
	n := a.c.N[a.ni]
	a.ni++
	return n
}

// DiffOut accumulates the canonical output of an operation: a sequence of
// (tag, length, bytes) records.  Errors are recorded by nil-ness only.
type DiffOut struct {
	buf     bytes.Buffer
	classes []string
}

// Class adds a label to the class histogram of the evidence (next to the
// operation name); it is not part of the compared output.
func (o *DiffOut) Class(label string) { o.classes = append(o.classes, label) }

func (o *DiffOut) rec(tag string, b []byte) {
	var l [4]byte
	o.buf.WriteString(tag)
	o.buf.WriteByte('=')
	binary.LittleEndian.PutUint32(l[:], uint32(len(b)))
	o.buf.Write(l[:])
	o.buf.Write(b)
	o.buf.WriteByte(';')
}

// Bytes records a byte string (nil and empty are the same output).
func (o *DiffOut) Bytes(tag string, b []byte) { o.rec(tag, b) }

// Bool records a boolean as 0/1.
func (o *DiffOut) Bool(tag string, v bool) {
	if v {
		o.rec(tag, []byte{1})
	} else {
		o.rec(tag, []byte{0})
	}
}

// Int records an integer.
func (o *DiffOut) Int(tag string, v int64) {
	var b [8]byte
	binary.LittleEndian.PutUint64(b[:], uint64(v))
	o.rec(tag, b[:])
}

// Err records whether err is nil (error text legitimately names the backend).
func (o *DiffOut) Err(tag string, err error) { o.Bool(tag+".err", err != nil) }

// Panics runs f and records whether it panicked; used only where a panic is a
// documented outcome.  (Undocumented panics are caught by RunDiff and become
// the whole output "PANIC".)
func (o *DiffOut) Panics(tag string, f func()) bool {
	p, _ := Catch(f)
	o.Bool(tag+".panic", p)
	return p
}

// Int8s records a slice of signed digits.
func (o *DiffOut) Int8s(tag string, v []int8) {
	b := make([]byte, len(v))
	for i, x := range v {
		b[i] = byte(x)
	}
	o.rec(tag, b)
}

// DiffOp is one registry entry.
type DiffOp struct {
	Name   string
	Weight int      // relative frequency (default 1 when 0)
	Covers []string // exported symbols ("Type.Method" / "Func" / "VAR") this operation executes and outputs
	Gen    func(t *rapid.T, c *DiffCase)
	Exec   func(a *DiffArgs, o *DiffOut)
}

// DiffBuildTags reports the backend-selecting build tags this binary was
// compiled with (see c06_tags_*.go).
func DiffBuildTags() string { return diffBuildTags }

// DiffBackend describes the configuration a test process runs in; pkgInfo is
// package-specific proof of the executing backend (limb counts, the run-time
// vector switch, ...).
func DiffBackend(pkgInfo string) string {
	gd := ""
	for _, kv := range strings.Split(os.Getenv("GODEBUG"), ",") {
		if strings.HasPrefix(kv, "cpu.") {
			gd += kv + " "
		}
	}
	return fmt.Sprintf("config=%s buildtags=[%s] GODEBUG-cpu=[%s] %s", os.Getenv("VERIF_CONFIG"), diffBuildTags, strings.TrimSpace(gd), pkgInfo)
}

func diffNonTrivial(c *DiffCase) bool {
	for _, b := range c.B {
		for _, x := range b {
			if x != 0 {
				return true
			}
		}
	}
	return false
}

// RunDiffOps runs the workload of one package as a RunDiff property: each
// case draws an operation (by weight) and its arguments.  Class label = the
// operation name; a case is non-trivial when at least one of its generated
// byte-string arguments is not all-zero / empty (operations without such
// arguments -- constructors, constants -- count as trivial).
//
// pkg is the package path relative to the module root; it is used to check
// the registry against the checked-in coverage list
// $VERIF_DIR/harness/c06_coverage.txt in both directions.
func RunDiffOps(t *testing.T, pkg, backend string, ops []DiffOp) {
	byName := map[string]*DiffOp{}
	total := 0
	for i := range ops {
		op := &ops[i]
		if op.Weight <= 0 {
			op.Weight = 1
		}
		if byName[op.Name] != nil {
			t.Fatalf("VERIF-HARNESS-ERROR duplicate operation %q", op.Name)
		}
		byName[op.Name] = op
		total += op.Weight
	}
	if d := os.Getenv("VERIF_C06_DUMP"); d != "" {
		// maintenance mode: write the "covered" lines of this registry and stop.
		var sb strings.Builder
		for _, op := range ops {
			for _, s := range op.Covers {
				fmt.Fprintf(&sb, "covered %s %s %s:%s\n", pkg, s, t.Name(), op.Name)
			}
		}
		os.MkdirAll(d, 0o755)
		if err := os.WriteFile(filepath.Join(d, t.Name()+".txt"), []byte(sb.String()), 0o644); err != nil {
			t.Fatalf("VERIF-HARNESS-ERROR %v", err)
		}
		t.Skip("coverage dump written")
	}
	if err := diffCheckCoverage(t.Name(), pkg, ops, byName); err != nil {
		t.Fatalf("VERIF-HARNESS-ERROR coverage list: %v", err)
	}
	SetExtra(t, "backend:"+os.Getenv("VERIF_CONFIG"), backend)
	SetExtra(t, "operations", fmt.Sprintf("%d", len(ops)))
	gen := func(rt *rapid.T) DiffCase {
		k := rapid.IntRange(0, total-1).Draw(rt, "op")
		var op *DiffOp
		for i := range ops {
			if k < ops[i].Weight {
				op = &ops[i]
				break
			}
			k -= ops[i].Weight
		}
		c := DiffCase{Op: op.Name}
		if op.Gen != nil {
			op.Gen(rt, &c)
		}
		return c
	}
	exec := func(c DiffCase) ([]byte, []string, bool) {
		op := byName[c.Op]
		if op == nil {
			return []byte("UNKNOWN-OP"), []string{"unknown-op"}, false
		}
		var o DiffOut
		op.Exec(&DiffArgs{c: &c}, &o)
		return o.buf.Bytes(), append([]string{c.Op}, o.classes...), diffNonTrivial(&c)
	}
	RunDiff(t, gen, exec)
}

// diffCheckCoverage verifies that (1) every symbol an operation claims to
// cover is listed as "covered <pkg> <symbol> ... <test>:<op> ..." and (2)
// every "<test>:<op>" reference of the list exists in the registry.
func diffCheckCoverage(test, pkg string, ops []DiffOp, byName map[string]*DiffOp) error {
	root := os.Getenv("VERIF_DIR")
	if root == "" {
		return nil
	}
	fh, err := os.Open(filepath.Join(root, "harness", "c06_coverage.txt"))
	if err != nil {
		return err
	}
	defer fh.Close()
	listed := map[string]bool{} // "symbol op"
	sc := bufio.NewScanner(fh)
	sc.Buffer(make([]byte, 1<<20), 1<<20)
	var problems []string
	for sc.Scan() {
		f := strings.Fields(sc.Text())
		if len(f) < 4 || f[0] != "covered" || f[1] != pkg {
			continue
		}
		for _, ref := range f[3:] {
			if !strings.HasPrefix(ref, test+":") {
				continue
			}
			op := strings.TrimPrefix(ref, test+":")
			if byName[op] == nil {
				problems = append(problems, fmt.Sprintf("list references unknown operation %s for %s", ref, f[2]))
			}
			listed[f[2]+" "+op] = true
		}
	}
	for _, op := range ops {
		for _, s := range op.Covers {
			if !listed[s+" "+op.Name] {
				problems = append(problems, fmt.Sprintf("operation %s covers %s %s but the list does not say so", op.Name, pkg, s))
			}
		}
	}
	if len(problems) > 0 {
		sort.Strings(problems)
		if len(problems) > 12 {
			problems = append(problems[:12], "...")
		}
		return fmt.Errorf("%s (regenerate with tools/c06cov/gen.py)", strings.Join(problems, "; "))
	}
	return nil
}

// ---- argument generators shared by the C06 registries ----

// DiffScalar appends a 32-byte scalar string below 2^255 from the boundary catalogue.
func DiffScalar(t *rapid.T, c *DiffCase, label string) {
	b, _ := Scalar255(t, label)
	c.PutB(b)
}

// DiffBytes32 appends any 32-byte string from the boundary catalogue.
func DiffBytes32(t *rapid.T, c *DiffCase, label string) {
	b, _ := Bytes256(t, label)
	c.PutB(b)
}

// DiffRef / DiffEnc: the point [A]B + T[J] through verifref's table-based
// fixed-base path (validated against the plain double-and-add in verifref's
// own tests); ~30x cheaper than PointSpec.Ref for full-size A.  These are
// inputs of a differential test: all configurations get the same bytes.
func DiffRef(ps PointSpec) ref.Point { return ref.C03BasePlusTorsion(ref.FromLE(ps.A), ps.J%8) }
func DiffEnc(ps PointSpec) []byte    { return DiffRef(ps).Encode() }

// DiffPoint appends a 32-byte point string (mostly valid encodings built by
// the reference: [a]B+T[j], identity, torsion; one time in five a decoder
// boundary string that may be invalid) and an integer re-representation
// selector (0 = as decoded, k>0 = round trip through additions so that Z != 1).
func DiffPoint(t *rapid.T, c *DiffCase, label string) {
	switch rapid.IntRange(0, 9).Draw(t, label+"_src") {
	case 0, 1:
		b, _ := GenPointBytes(t, label)
		c.PutB(b)
	case 2, 3, 4:
		c.PutB(DiffEnc(GenPointSpec(t, label, false)))
	default:
		c.PutB(DiffEnc(GenPointSpec(t, label, true)))
	}
	c.PutN(rapid.IntRange(0, 3).Draw(t, label+"_rerep"))
}

// DiffValidPoint is DiffPoint restricted to valid encodings.
func DiffValidPoint(t *rapid.T, c *DiffCase, label string, cheap bool) {
	c.PutB(DiffEnc(GenPointSpec(t, label, cheap)))
	c.PutN(rapid.IntRange(0, 3).Draw(t, label+"_rerep"))
}

// DiffMsg appends a message of boundary-heavy length.
func DiffMsg(t *rapid.T, c *DiffCase, max int, label string) { c.PutB(Msg(t, max, label)) }

// DiffSized appends a byte string of a hostile length around n.
func DiffSized(t *rapid.T, c *DiffCase, n int, label string) {
	l := HostileLen(t, n, label)
	b := UniformBytes(t, l, label)
	switch rapid.IntRange(0, 5).Draw(t, label+"_fill") {
	case 0:
		for i := range b {
			b[i] = 0
		}
	case 1:
		for i := range b {
			b[i] = 0xff
		}
	}
	c.PutB(b)
}

// DiffEntropy appends n bytes for an entropy reader (all-zero, all-ones,
// counter or uniform).
func DiffEntropy(t *rapid.T, c *DiffCase, n int, label string) {
	b := make([]byte, n)
	switch rapid.IntRange(0, 5).Draw(t, label+"_ek") {
	case 0:
	case 1:
		for i := range b {
			b[i] = 0xff
		}
	case 2:
		for i := range b {
			b[i] = byte(i)
		}
	default:
		copy(b, UniformBytes(t, n, label))
	}
	c.PutB(b)
}

// DiffReader is an endless deterministic io.Reader over generated bytes (the
// seed repeated; an empty seed reads as zeros).
type DiffReader struct {
	seed []byte
	pos  int
}

func NewDiffReader(seed []byte) *DiffReader { return &DiffReader{seed: seed} }

func (r *DiffReader) Read(p []byte) (int, error) {
	for i := range p {
		if len(r.seed) == 0 {
			p[i] = 0
			continue
		}
		p[i] = r.seed[r.pos%len(r.seed)]
		r.pos++
	}
	return len(p), nil
}
