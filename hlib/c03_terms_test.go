package verifh

import (
	"bytes"
	"testing"

	"pgregory.net/rapid"
	ref "verifref"
)

// The decomposition used as the fast oracle path of C03 must agree with the
// plain term-by-term affine computation (C03Expected(direct=true) exits the
// process on disagreement), and the batch point construction with PointSpec.Ref.
func TestC03DecompositionAgreesWithDirect(t *testing.T) {
	unreduced, torsion := 0, 0
	rapid.Check(t, func(rt *rapid.T) {
		n := rapid.IntRange(0, 5).Draw(rt, "n")
		terms := C03GenTerms(rt, n, rapid.Bool().Draw(rt, "cheap"), false)
		want := C03Expected(terms, true)
		if !want.OnCurve() {
			rt.Fatalf("expected value off curve")
		}
		pts := C03Points(terms)
		for i, tm := range terms {
			if !pts[i].Equal(tm.P.Ref()) || !bytes.Equal(pts[i].Encode(), tm.P.Enc()) {
				rt.Fatalf("C03Points[%d] != PointSpec.Ref", i)
			}
			if !C03SpecPoint(tm.P).Equal(pts[i]) {
				rt.Fatalf("C03SpecPoint")
			}
			if len(tm.S) != 32 || tm.S[31]&0x80 != 0 {
				rt.Fatalf("scalar not 255-bit: %x", []byte(tm.S))
			}
			if ref.FromLE(tm.S).Cmp(ref.L) >= 0 {
				unreduced++
			}
			if tm.P.J != 0 {
				torsion++
			}
		}
	})
	if unreduced == 0 || torsion == 0 {
		t.Fatalf("generator did not produce unreduced scalars (%d) / torsion (%d)", unreduced, torsion)
	}
}

func TestC03EvenTorsionGenerator(t *testing.T) {
	rapid.Check(t, func(rt *rapid.T) {
		ps := C03GenPoint(rt, "p", true, true)
		if ps.J%2 != 0 || ps.J < 0 || ps.J > 7 {
			rt.Fatalf("odd torsion index %d", ps.J)
		}
		// every E[4] translate has the same ristretto encoding
		p := C03SpecPoint(ps)
		q := C03SpecPoint(PointSpec{A: ps.A, J: 0})
		if !bytes.Equal(ref.RistEncode(p), ref.RistEncode(q)) {
			rt.Fatalf("coset encoding differs for %+v", ps)
		}
	})
}
