package verifh

import (
	"math/big"

	"pgregory.net/rapid"
	ref "verifref"
)

// Generators for property C16 (short-vector lattice reduction).
//
// The reduction of the basis (L,0),(k,1) follows the Euclidean algorithm on
// (L, k): its behaviour (shift amounts, number of steps, size and sign of the
// result, when the 512-bit state shrinks to 384 bits) is governed by the
// continued-fraction expansion of k/L.  The generator therefore builds k from
// prescribed continued-fraction prefixes and from prescribed short vectors,
// besides the shared boundary catalogue.

func c16mask255(v *big.Int) *big.Int {
	return new(big.Int).And(v, new(big.Int).Sub(pow2(255), big.NewInt(1)))
}

// c16RandBits draws a uniform integer of exactly `bits` bits (0 for bits = 0).
func c16RandBits(t *rapid.T, bits uint, label string) *big.Int {
	if bits == 0 {
		return new(big.Int)
	}
	v := new(big.Int).SetBytes(UniformBytes(t, 40, label))
	v.Mod(v, pow2(bits))
	v.SetBit(v, int(bits)-1, 1)
	return v
}

// c16FromCF returns round(L*p/q) for the convergent p/q = [0; a_1, ..., a_n].
func c16FromCF(as []*big.Int) *big.Int {
	// h_n = a_n h_{n-1} + h_{n-2}; k_n likewise; start (h,k) = (0,1),(1,0)
	hPrev, h := big.NewInt(1), big.NewInt(0) // h_{-1}=1, h_0 = a_0 = 0
	kPrev, k := big.NewInt(0), big.NewInt(1) // k_{-1}=0, k_0 = 1
	for _, a := range as {
		h, hPrev = new(big.Int).Add(new(big.Int).Mul(a, h), hPrev), h
		k, kPrev = new(big.Int).Add(new(big.Int).Mul(a, k), kPrev), k
	}
	num := new(big.Int).Mul(ref.L, h)
	num.Lsh(num, 1)
	num.Add(num, k)
	den := new(big.Int).Lsh(k, 1)
	return num.Div(num, den) // floor((2 L h + k) / (2 k)) = round(L h / k)
}

// C16Scalar draws a 32-byte little-endian k < 2^255 and its class.
func C16Scalar(t *rapid.T, label string) ([]byte, string) {
	v, cls := c16Int(t, label)
	v = c16mask255(v)
	// lift some reduced values into the unreduced range (k + mL < 2^255)
	if v.Cmp(ref.L) < 0 && rapid.IntRange(0, 7).Draw(t, label+"_lift") == 0 {
		m := int64(rapid.IntRange(1, 7).Draw(t, label+"_m"))
		w := new(big.Int).Add(v, new(big.Int).Mul(big.NewInt(m), ref.L))
		if w.BitLen() <= 255 {
			v, cls = w, cls+"+mL"
		}
	}
	return ref.ToLE(v, 32), cls
}

func c16Int(t *rapid.T, label string) (*big.Int, string) {
	one := big.NewInt(1)
	e := func() *big.Int { return big.NewInt(int64(rapid.IntRange(-3, 3).Draw(t, label+"_e"))) }
	nonneg := func(v *big.Int) *big.Int {
		if v.Sign() < 0 {
			return new(big.Int).Mod(v, ref.L)
		}
		return v
	}
	switch rapid.IntRange(0, 14).Draw(t, label+"_c16k") {
	case 12: // fixed points of the domain
		fixed := []*big.Int{big.NewInt(0), one, big.NewInt(2), new(big.Int).Sub(ref.L, one), ref.L, new(big.Int).Add(ref.L, one),
			new(big.Int).Sub(pow2(255), one), new(big.Int).Rsh(ref.L, 1), new(big.Int).Add(new(big.Int).Rsh(ref.L, 1), one),
			new(big.Int).Sub(pow2(252), one), pow2(252), pow2(254), new(big.Int).Sub(ref.L, big.NewInt(2)),
			new(big.Int).Mul(big.NewInt(2), ref.L), new(big.Int).Mul(big.NewInt(7), ref.L)}
		// Extremal lattices: k^2 = -1 (two orthogonal shortest vectors of equal norm, inner product 0) and
		// k^2 + k + 1 = 0 (hexagonal lattice: every comparison in the reduction ties).
		fixed = append(fixed, c16SpecialRoots()...)
		return new(big.Int).Set(fixed[rapid.IntRange(0, len(fixed)-1).Draw(t, label+"_fx")]), "fixed"
	case 5: // floor(L*a/q) + e for q of any size below 2^127: one very short vector (q, ~e*q)
		qb := uint(rapid.IntRange(1, 127).Draw(t, label+"_qb"))
		q := c16RandBits(t, qb, label+"_q")
		a := new(big.Int).SetBytes(UniformBytes(t, 20, label+"_a"))
		a.Mod(a, q)
		if rapid.IntRange(0, 4).Draw(t, label+"_a1") == 0 {
			a.SetInt64(1)
		}
		v := new(big.Int).Mul(ref.L, a)
		v.Div(v, q)
		v.Add(v, e())
		return nonneg(v), "L*a/q"
	case 10: // around sqrt(L) and its small multiples
		s := new(big.Int).Sqrt(ref.L)
		m := big.NewInt(int64(rapid.IntRange(1, 1<<16).Draw(t, label+"_m")))
		if rapid.Bool().Draw(t, label+"_m1") {
			m.SetInt64(1)
		}
		v := new(big.Int).Mul(s, m)
		v.Add(v, e())
		return v, "sqrtL"
	case 6: // a single repeated partial quotient all the way (q=1: L/phi, longest expansion)
		a := big.NewInt(int64(rapid.SampledFrom([]int{1, 1, 1, 2, 3, 4, 7, 15, 16, 255, 65535}).Draw(t, label+"_rq")))
		var as []*big.Int
		// enough terms for the denominator to pass 2^125
		den := big.NewInt(1)
		denPrev := big.NewInt(0)
		for den.BitLen() < 125 {
			as = append(as, a)
			den, denPrev = new(big.Int).Add(new(big.Int).Mul(a, den), denPrev), den
		}
		cut := rapid.IntRange(0, 6).Draw(t, label+"_cut")
		if cut < len(as) {
			as = as[:len(as)-cut]
		}
		v := c16FromCF(as)
		v.Add(v, e())
		return nonneg(v), "cf-run"
	case 0, 1, 2: // engineered prefix: small quotients, then a huge one at a chosen depth, then small ones
		var as []*big.Int
		den, denPrev := big.NewInt(1), big.NewInt(0)
		push := func(a *big.Int) {
			as = append(as, a)
			den, denPrev = new(big.Int).Add(new(big.Int).Mul(a, den), denPrev), den
		}
		small := func() *big.Int {
			if rapid.IntRange(0, 3).Draw(t, label+"_s1") != 0 {
				return big.NewInt(int64(rapid.IntRange(1, 3).Draw(t, label+"_sq")))
			}
			return big.NewInt(int64(rapid.IntRange(1, 1000).Draw(t, label+"_sq2")))
		}
		depth := rapid.IntRange(0, 124).Draw(t, label+"_depth") // bits of the denominator before the huge quotient
		for den.BitLen() < depth {
			push(small())
		}
		hb := rapid.IntRange(2, 126).Draw(t, label+"_hb")
		if den.BitLen()+hb > 125 {
			hb = 125 - den.BitLen()
		}
		if hb >= 2 {
			h := c16RandBits(t, uint(hb), label+"_huge")
			switch rapid.IntRange(0, 3).Draw(t, label+"_hk") {
			case 0:
				h = pow2(uint(hb) - 1) // exact power of two
			case 1:
				h = new(big.Int).Sub(pow2(uint(hb)), one) // all ones
			}
			push(h)
		}
		// optionally a second huge quotient right after, or continue small
		tail := rapid.IntRange(0, 125).Draw(t, label+"_tail")
		for den.BitLen() < tail && den.BitLen() < 125 {
			push(small())
		}
		if len(as) == 0 {
			push(small())
		}
		v := c16FromCF(as)
		v.Add(v, e())
		return nonneg(v), "cf-huge"
	case 3, 4: // prescribed short vector (d0, d1): k = d0/d1 mod L, sizes up to the 2^127 edge, both signs
		b0 := uint(rapid.IntRange(0, 127).Draw(t, label+"_b0"))
		b1 := uint(rapid.IntRange(1, 127).Draw(t, label+"_b1"))
		if rapid.IntRange(0, 3).Draw(t, label+"_edge") == 0 {
			b0, b1 = uint(rapid.IntRange(124, 127).Draw(t, label+"_eb0")), uint(rapid.IntRange(124, 127).Draw(t, label+"_eb1"))
		}
		d0 := c16RandBits(t, b0, label+"_d0")
		d1 := c16RandBits(t, b1, label+"_d1")
		switch rapid.IntRange(0, 5).Draw(t, label+"_dk") {
		case 0:
			d1 = pow2(b1 - 1)
		case 1:
			d0 = new(big.Int).Sub(pow2(b0), one)
		case 2:
			d0 = new(big.Int).Set(d1) // k = 1 (mod L) unless signs differ
		}
		if rapid.Bool().Draw(t, label+"_neg") {
			d0.Neg(d0)
		}
		v := ref.SMul(d0, ref.SInv(d1))
		return v, "short-vector"
	case 7: // 2^i, 2^i +- 1, and multiples of L shifted: bit-length sweeps (shift amounts 0..128)
		i := uint(rapid.IntRange(0, 254).Draw(t, label+"_i"))
		v := pow2(i)
		v.Add(v, big.NewInt(int64(rapid.IntRange(-1, 1).Draw(t, label+"_pm"))))
		return v, "2^i"
	case 8: // uniform of a uniform bit length
		bits := uint(rapid.IntRange(1, 255).Draw(t, label+"_bits"))
		return c16RandBits(t, bits, label+"_u"), "bitlen"
	case 9: // L - small-bitlength, L/2 +- small-bitlength: negative representatives of short values
		bits := uint(rapid.IntRange(1, 200).Draw(t, label+"_bits"))
		x := c16RandBits(t, bits, label+"_x")
		base := ref.L
		if rapid.Bool().Draw(t, label+"_half") {
			base = new(big.Int).Rsh(ref.L, 1)
			if rapid.Bool().Draw(t, label+"_plus") {
				return new(big.Int).Add(base, x), "L/2+x"
			}
		}
		return nonneg(new(big.Int).Sub(base, x)), "L-x"
	default:
		b, cls := Scalar255(t, label)
		return ref.FromLE(b), "cat:" + cls
	}
}

// C16Structured reports whether a class produced by C16Scalar is a structured
// (not plain uniform) one.
func C16Structured(cls string) bool {
	switch cls {
	case "cat:reduced", "cat:uniform", "cat:anybits", "bitlen":
		return false
	}
	return true
}

// C16EngineeredAB draws a pair of scalars (a, b) for the triple-base
// multiplication such that the split of delta*b into two 128-bit halves is
// extreme.  a = d0/d1 mod L for a prescribed vector (d0, d1) far shorter than
// sqrt(L), which the reduction therefore returns up to sign (delta = +-d1);
// b = +-target/d1 mod L, so that |delta|*b mod L equals `target` (for one of
// the two signs): a multiple of 2^128 (low half zero), 2^128-1 (high half
// zero), 2^127, 2^128, 0, 1, or a value with an all-ones low half.
func C16EngineeredAB(t *rapid.T, label string) (a, b []byte, cls string) {
	one := big.NewInt(1)
	b0 := uint(rapid.IntRange(0, 118).Draw(t, label+"_b0"))
	b1 := uint(rapid.IntRange(1, 118).Draw(t, label+"_b1"))
	if rapid.IntRange(0, 2).Draw(t, label+"_tiny") == 0 {
		b0, b1 = uint(rapid.IntRange(0, 3).Draw(t, label+"_tb0")), uint(rapid.IntRange(1, 3).Draw(t, label+"_tb1"))
	}
	d0 := c16RandBits(t, b0, label+"_d0")
	d1 := c16RandBits(t, b1, label+"_d1")
	if rapid.Bool().Draw(t, label+"_neg") {
		d0.Neg(d0)
	}
	av := ref.SMul(d0, ref.SInv(d1))
	var target *big.Int
	hiBits := uint(rapid.IntRange(1, 124).Draw(t, label+"_hb"))
	hi := new(big.Int).Lsh(c16RandBits(t, hiBits, label+"_hi"), 128)
	switch rapid.IntRange(0, 8).Draw(t, label+"_tk") {
	case 0, 1:
		target, cls = hi, "db=x*2^128"
	case 2:
		target, cls = new(big.Int).Sub(pow2(128), one), "db=2^128-1"
	case 3:
		target, cls = pow2(128), "db=2^128"
	case 4:
		target, cls = pow2(127), "db=2^127"
	case 5:
		target, cls = big.NewInt(int64(rapid.IntRange(0, 1).Draw(t, label+"_01"))), "db=0|1"
	case 6:
		target, cls = new(big.Int).Add(hi, new(big.Int).Sub(pow2(128), one)), "db=x*2^128+ones"
	case 7:
		target, cls = new(big.Int).Add(hi, one), "db=x*2^128+1"
	default:
		target, cls = new(big.Int).Sub(ref.L, one), "db=L-1"
	}
	target = ref.SMod(target)
	if rapid.Bool().Draw(t, label+"_tneg") {
		target = ref.SNeg(target)
	}
	bv := ref.SMul(target, ref.SInv(d1))
	return ref.ToLE(av, 32), ref.ToLE(bv, 32), cls
}

// c16SpecialRoots returns the square roots of -1 and the primitive cube roots
// of unity modulo L (L = 1 mod 4 and 1 mod 3), with small offsets.
func c16SpecialRoots() []*big.Int {
	one := big.NewInt(1)
	lm1 := new(big.Int).Sub(ref.L, one)
	i := new(big.Int).Exp(big.NewInt(2), new(big.Int).Rsh(lm1, 2), ref.L) // 2 is a non-residue since L = 5 mod 8
	var w *big.Int
	for g := int64(2); ; g++ {
		w = new(big.Int).Exp(big.NewInt(g), new(big.Int).Div(lm1, big.NewInt(3)), ref.L)
		if w.Cmp(one) != 0 {
			break
		}
	}
	out := []*big.Int{i, ref.SNeg(i), w, ref.SMul(w, w), ref.SNeg(w), ref.SNeg(ref.SMul(w, w))}
	for _, v := range []*big.Int{i, w} {
		out = append(out, ref.SAdd(v, one), ref.SSub(v, one))
	}
	return out
}
