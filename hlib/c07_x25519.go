package verifh

import (
	"math/big"

	"pgregory.net/rapid"
	ref "verifref"
)

// C07TwistU constructs (no rejection) the u-coordinate of a point on the
// quadratic twist of curve25519 from an arbitrary field element r, the way
// Elligator 2 does: v = -A/(1+2r^2); exactly one of v and -v-A is on the
// curve, the other one on the twist.  1+2r^2 is never 0 (-1/2 is a
// non-square).  Returns the reduced value.
func C07TwistU(r *big.Int) *big.Int {
	den := ref.FAdd(big.NewInt(1), ref.FMul(big.NewInt(2), ref.FSqr(r)))
	v := ref.FDiv(ref.FNeg(ref.X25519MontA), den)
	if ref.X25519OnCurve(v) {
		v = ref.FSub(ref.FNeg(v), ref.X25519MontA)
	}
	return v
}

// C07U draws a 32-byte X25519 u-coordinate string from the classes that
// matter to the function: low-order strings, non-canonical values, points of
// the curve (prime-order, mixed, torsion), points of the twist, small values,
// the boundary catalogue, uniform; each possibly with bit 255 set.
func C07U(t *rapid.T, label string) ([]byte, string) {
	var u []byte
	cls := ""
	switch rapid.IntRange(0, 11).Draw(t, label+"_uk") {
	case 11:
		// u engineered for the first ladder step of RFC 7748: E = AA - BB = 4u is
		// multiplied by a24 (121665/121666).  Choose E with a 51-bit (or 25/26-bit)
		// limb L_i = floor(k*2^64/c) - j, whose product with the small constant has
		// a low machine word just below 2^64, and the limb below it maximal so that
		// the incoming carry wraps that word; then u = E/4 mod p.  Uniform inputs
		// reach such carries with probability ~2^-47.
		c := rapid.SampledFrom([]int64{121666, 121665, 121666}).Draw(t, label+"_c")
		i := rapid.IntRange(1, 4).Draw(t, label+"_limb")
		kmax := new(big.Int).Div(new(big.Int).Mul(new(big.Int).Lsh(big.NewInt(1), 51), big.NewInt(c)), new(big.Int).Lsh(big.NewInt(1), 64)).Int64()
		k := rapid.Int64Range(1, kmax).Draw(t, label+"_k")
		li := new(big.Int).Div(new(big.Int).Lsh(big.NewInt(k), 64), big.NewInt(c))
		li.Sub(li, big.NewInt(int64(rapid.IntRange(0, 2).Draw(t, label+"_j"))))
		e := new(big.Int).SetBytes(UniformBytes(t, 32, label+"_e"))
		e.Mod(e, ref.P)
		mask51 := new(big.Int).Sub(new(big.Int).Lsh(big.NewInt(1), 51), big.NewInt(1))
		for _, set := range []struct {
			idx int
			v   *big.Int
		}{{i, li}, {i - 1, mask51}} {
			sh := uint(51 * set.idx)
			e.AndNot(e, new(big.Int).Lsh(mask51, sh))
			e.Or(e, new(big.Int).Lsh(set.v, sh))
		}
		e.Mod(e, ref.P)
		u, cls = ref.FEncode(ref.FDiv(e, big.NewInt(4))), "first-step-carry-engineered"
	case 0:
		l := ref.X25519LowOrderStrings()
		return append([]byte(nil), l[rapid.IntRange(0, len(l)-1).Draw(t, label+"_lo")]...), "low-order"
	case 1:
		k := rapid.IntRange(0, 18).Draw(t, label+"_k19")
		u, cls = ref.ToLE(new(big.Int).Add(ref.P, big.NewInt(int64(k))), 32), "u>=p"
	case 2, 3:
		ps := GenPointSpec(t, label+"_pt", rapid.Bool().Draw(t, label+"_cheap"))
		u, cls = ref.FEncode(ps.Ref().MontgomeryU()), "curve:"+ps.Cls
	case 4, 5:
		r := ref.FromLE(UniformBytes(t, 32, label+"_r"))
		if rapid.IntRange(0, 3).Draw(t, label+"_rs") == 0 {
			r = big.NewInt(int64(rapid.IntRange(0, 200).Draw(t, label+"_rsmall")))
		}
		u, cls = ref.FEncode(C07TwistU(r)), "twist"
	case 6:
		u, cls = ref.ToLE(big.NewInt(int64(rapid.IntRange(0, 300).Draw(t, label+"_small"))), 32), "small"
	case 7:
		u, cls = ref.ToLE(new(big.Int).Sub(ref.P, big.NewInt(int64(rapid.IntRange(1, 300).Draw(t, label+"_psmall")))), 32), "p-small"
	case 8:
		u, cls = Bytes256(t, label+"_cat")
		cls = "catalogue:" + cls
	default:
		u, cls = UniformBytes(t, 32, label+"_uni"), "uniform"
	}
	if rapid.IntRange(0, 3).Draw(t, label+"_b255") == 0 {
		u[31] ^= 0x80
		cls += "^bit255"
	}
	return u, cls
}

// C07Scalar draws a 32-byte X25519 scalar string: catalogue or uniform, and
// in half of the cases the five clamping-sensitive bits (0, 1, 2, 254, 255)
// are overridden with a drawn combination.
func C07Scalar(t *rapid.T, label string) ([]byte, string) {
	var k []byte
	cls := ""
	if rapid.Bool().Draw(t, label+"_cat") {
		k, cls = Bytes256(t, label+"_c")
	} else {
		k, cls = UniformBytes(t, 32, label+"_u"), "uniform"
	}
	if rapid.Bool().Draw(t, label+"_ovr") {
		bits := rapid.IntRange(0, 31).Draw(t, label+"_bits")
		k[0] = k[0]&^7 | byte(bits&7)
		k[31] = k[31]&^0xc0 | byte(bits>>3)<<6
		cls += "/clampbits"
	}
	return k, cls
}

// C07ClampedWrongWay reports whether some bit that clamping fixes has the
// opposite value in k (so that clamping changes k).
func C07ClampedWrongWay(k []byte) bool {
	return k[0]&7 != 0 || k[31]&0x80 != 0 || k[31]&0x40 == 0
}
