package verifh

import (
	"math/big"

	"pgregory.net/rapid"
	ref "verifref"
)

// C07TwistU constructs (no rejection) the u-coordinate of a point on the
// quadratic twist of curve25519 from an arbitrary field element r, the way
// Elligator 2 does: v = -A/(1+2r^2); exactly one of v and -v-A is on the
// curve, the other one on the twist.  1+2r^2 is never 0 (-1/2 is a
// non-square).  Returns the reduced value.
func C07TwistU(r *big.Int) *big.Int {
	den := ref.FAdd(big.NewInt(1), ref.FMul(big.NewInt(2), ref.FSqr(r)))
	v := ref.FDiv(ref.FNeg(ref.X25519MontA), den)
	if ref.X25519OnCurve(v) {
		v = ref.FSub(ref.FNeg(v), ref.X25519MontA)
	}
	return v
}

// C07U draws a 32-byte X25519 u-coordinate string from the classes that
// matter to the function: low-order strings, non-canonical values, points of
// the curve (prime-order, mixed, torsion), points of the twist, small values,
// the boundary catalogue, uniform; each possibly with bit 255 set.
func C07U(t *rapid.T, label string) ([]byte, string) {
	var u []byte
	cls := ""
	switch rapid.IntRange(0, 11).Draw(t, label+"_uk") {
	case 11:
		// u engineered for the first ladder step of RFC 7748: E = AA - BB = 4u is
		// multiplied by a24 (121665/121666).  Choose E with a 51-bit (or 25/26-bit)
		// limb L_i = floor(k*2^64/c) - j, whose product with the small constant has
		// a low machine word just below 2^64, and the limb below it maximal so that
		// the incoming carry wraps that word; then u = E/4 mod p.  Uniform inputs
		// reach such carries with probability ~2^-47.
		c := rapid.SampledFrom([]int64{121666, 121665, 121666}).Draw(t, label+"_c")
		i := rapid.IntRange(1, 4).Draw(t, label+"_limb")
		kmax := new(big.Int).Div(new(big.Int).Mul(new(big.Int).Lsh(big.NewInt(1), 51), big.NewInt(c)), new(big.Int).Lsh(big.NewInt(1), 64)).Int64()
		k := rapid.Int64Range(1, kmax).Draw(t, label+"_k")
		li := new(big.Int).Div(new(big.Int).Lsh(big.NewInt(k), 64), big.NewInt(c))
		li.Sub(li, big.NewInt(int64(rapid.IntRange(0, 2).Draw(t, label+"_j"))))
		e := new(big.Int).SetBytes(UniformBytes(t, 32, label+"_e"))
		e.Mod(e, ref.P)
		mask51 := new(big.Int).Sub(new(big.Int).Lsh(big.NewInt(1), 51), big.NewInt(1))
		for _, set := range []struct {
			idx int
			v   *big.Int
		}{{i, li}, {i - 1, mask51}} {
			sh := uint(51 * set.idx)
			e.AndNot(e, new(big.Int).Lsh(mask51, sh))
			e.Or(e, new(big.Int).Lsh(set.v, sh))
		}
		e.Mod(e, ref.P)
		u, cls = ref.FEncode(ref.FDiv(e, big.NewInt(4))), "first-step-carry-engineered"
	case 0:
		l := ref.X25519LowOrderStrings()
		return append([]byte(nil), l[rapid.IntRange(0, len(l)-1).Draw(t, label+"_lo")]...), "low-order"
	case 1:
		k := rapid.IntRange(0, 18).Draw(t, label+"_k19")
		u, cls = ref.ToLE(new(big.Int).Add(ref.P, big.NewInt(int64(k))), 32), "u>=p"
	case 2, 3:
		ps := GenPointSpec(t, label+"_pt", rapid.Bool().Draw(t, label+"_cheap"))
		u, cls = ref.FEncode(ps.Ref().MontgomeryU()), "curve:"+ps.Cls
	case 4, 5:
		r := ref.FromLE(UniformBytes(t, 32, label+"_r"))
		if rapid.IntRange(0, 3).Draw(t, label+"_rs") == 0 {
			r = big.NewInt(int64(rapid.IntRange(0, 200).Draw(t, label+"_rsmall")))
		}
		u, cls = ref.FEncode(C07TwistU(r)), "twist"
	case 6:
		u, cls = ref.ToLE(big.NewInt(int64(rapid.IntRange(0, 300).Draw(t, label+"_small"))), 32), "small"
	case 7:
		u, cls = ref.ToLE(new(big.Int).Sub(ref.P, big.NewInt(int64(rapid.IntRange(1, 300).Draw(t, label+"_psmall")))), 32), "p-small"
	case 8:
		u, cls = Bytes256(t, label+"_cat")
		cls = "catalogue:" + cls
	default:
		u, cls = UniformBytes(t, 32, label+"_uni"), "uniform"
	}
	if rapid.IntRange(0, 3).Draw(t, label+"_b255") == 0 {
		u[31] ^= 0x80
		cls += "^bit255"
	}
	return u, cls
}

// C07Scalar draws a 32-byte X25519 scalar string: catalogue or uniform, and
// in half of the cases the five clamping-sensitive bits (0, 1, 2, 254, 255)
// are overridden with a drawn combination.
func C07Scalar(t *rapid.T, label string) ([]byte, string) {
	var k []byte
	cls := ""
	if rapid.Bool().Draw(t, label+"_cat") {
		k, cls = Bytes256(t, label+"_c")
	} else {
		k, cls = UniformBytes(t, 32, label+"_u"), "uniform"
	}
	if rapid.Bool().Draw(t, label+"_ovr") {
		bits := rapid.IntRange(0, 31).Draw(t, label+"_bits")
		k[0] = k[0]&^7 | byte(bits&7)
		k[31] = k[31]&^0xc0 | byte(bits>>3)<<6
		cls += "/clampbits"
	}
	return k, cls
}

// C07ClampedWrongWay reports whether some bit that clamping fixes has the
// opposite value in k (so that clamping changes k).
func C07ClampedWrongWay(k []byte) bool {
	return k[0]&7 != 0 || k[31]&0x80 != 0 || k[31]&0x40 == 0
}

// C07EngineeredPair builds a (scalar, u) pair whose X25519 OUTPUT has a chosen
// shape: the output r is picked first (64-bit or 32-bit words that XOR to
// zero, leading / trailing zero bytes, all bytes equal), then
// u = u([k^-1 mod L]R) for the torsion-free curve point R with u(R) = r.
// Uniform inputs produce such outputs with probability 2^-64..2^-8; output
// predicates (the all-zero test of the checked entry point, early exits) are
// only exercised meaningfully by them.  ok=false if no suitable r was found.
func C07EngineeredPair(t *rapid.T, label string) (k, u []byte, cls string, ok bool) {
	k, _ = C07Scalar(t, label+"_k")
	kc := append([]byte(nil), k...)
	kc[0] &= 248
	kc[31] &= 127
	kc[31] |= 64
	kk := ref.SMod(ref.FromLE(kc))
	if kk.Sign() == 0 {
		return nil, nil, "", false
	}
	shape := rapid.IntRange(0, 4).Draw(t, label+"_shape")
	seed := rapid.Uint64().Draw(t, label+"_seed")
	for try := uint64(0); try < 48; try++ {
		b := Expand(seed+try*0x9e37, 32)
		switch shape {
		case 0: // 64-bit words XOR to zero
			for i := 0; i < 8; i++ {
				b[24+i] = b[i] ^ b[8+i] ^ b[16+i]
			}
			cls = "output:xor64=0"
		case 1: // 32-bit words XOR to zero
			for i := 0; i < 4; i++ {
				x := byte(0)
				for w := 0; w < 7; w++ {
					x ^= b[4*w+i]
				}
				b[28+i] = x
			}
			cls = "output:xor32=0"
		case 2: // leading zero bytes
			n := 1 + int(b[31])%8
			for i := 0; i < n; i++ {
				b[i] = 0
			}
			cls = "output:leading-zeros"
		case 3: // trailing zero bytes
			n := 1 + int(b[0])%8
			for i := 0; i < n; i++ {
				b[31-i] = 0
			}
			cls = "output:trailing-zeros"
		default: // all bytes equal
			v := b[0] & 0x7f
			for i := range b {
				b[i] = v
			}
			cls = "output:all-bytes-equal"
		}
		if b[31]&0x80 != 0 {
			// keep the XOR relations: flip the top bit in two words
			b[31] ^= 0x80
			b[7] ^= 0x80
		}
		r := ref.FromLE(b)
		if r.Cmp(ref.P) >= 0 || r.Sign() == 0 {
			continue
		}
		R, onCurve := ref.FromMontgomeryU(r, 0)
		if !onCurve || !ref.IsTorsionFree(R) || R.IsIdentity() {
			continue
		}
		U := ref.Mul(ref.SInv(kk), R)
		return k, ref.FEncode(U.MontgomeryU()), cls, true
	}
	return nil, nil, "", false
}
