//go:build force32bit && purego

package verifh

const diffBuildTags = "purego,force32bit"
