package verifh

import (
	"bytes"
	"encoding/json"
	"testing"

	"pgregory.net/rapid"
)

// The fast input-construction path must agree with the plain reference path.
func TestC06DiffEncMatchesPointSpec(t *testing.T) {
	rapid.Check(t, func(rt *rapid.T) {
		ps := GenPointSpec(rt, "p", rapid.Bool().Draw(rt, "cheap"))
		if !bytes.Equal(DiffEnc(ps), ps.Enc()) {
			rt.Fatalf("DiffEnc != PointSpec.Enc for %+v", ps)
		}
	})
}

// A case must survive the JSON round trip of a replay file unchanged, and the
// argument cursor must hand out private copies.
func TestC06DiffCaseRoundTrip(t *testing.T) {
	var c DiffCase
	c.Op = "x"
	c.PutB([]byte{1, 2, 3})
	c.PutB(nil)
	c.PutN(-5)
	js, err := json.Marshal(c)
	if err != nil {
		t.Fatal(err)
	}
	var d DiffCase
	if err := json.Unmarshal(js, &d); err != nil {
		t.Fatal(err)
	}
	js2, _ := json.Marshal(d)
	if !bytes.Equal(js, js2) {
		t.Fatalf("round trip changed the case: %s vs %s", js, js2)
	}
	a := &DiffArgs{c: &d}
	b := a.B()
	b[0] = 9
	if d.B[0][0] != 1 {
		t.Fatal("DiffArgs.B returned an alias of the case")
	}
	if len(a.B()) != 0 || a.N() != -5 || a.N() != 0 || len(a.B()) != 0 {
		t.Fatal("cursor semantics")
	}
}

// Output records are unambiguous (tag, length, bytes) and error text never enters the output.
func TestC06DiffOut(t *testing.T) {
	var o1, o2 DiffOut
	o1.Bytes("a", []byte("bc"))
	o1.Bytes("d", nil)
	o2.Bytes("a", []byte("b"))
	o2.Bytes("cd", nil)
	if bytes.Equal(o1.buf.Bytes(), o2.buf.Bytes()) {
		t.Fatal("ambiguous framing")
	}
	var e1, e2 DiffOut
	e1.Err("x", errText("internal/field/u32: bad"))
	e2.Err("x", errText("internal/field/u64: bad"))
	if !bytes.Equal(e1.buf.Bytes(), e2.buf.Bytes()) {
		t.Fatal("error text leaked into the output")
	}
	var e3 DiffOut
	e3.Err("x", nil)
	if bytes.Equal(e1.buf.Bytes(), e3.buf.Bytes()) {
		t.Fatal("nil-ness not recorded")
	}
	e3.Class("size")
	if len(e3.classes) != 1 {
		t.Fatal("class")
	}
}

type errText string

func (e errText) Error() string { return string(e) }

func TestC06DiffReader(t *testing.T) {
	r := NewDiffReader([]byte{1, 2, 3})
	buf := make([]byte, 7)
	r.Read(buf)
	if !bytes.Equal(buf, []byte{1, 2, 3, 1, 2, 3, 1}) {
		t.Fatalf("got %v", buf)
	}
	r.Read(buf[:2])
	if !bytes.Equal(buf[:2], []byte{2, 3}) {
		t.Fatalf("got %v", buf[:2])
	}
	z := NewDiffReader(nil)
	z.Read(buf)
	if !bytes.Equal(buf, make([]byte, 7)) {
		t.Fatal("empty seed must read zeros")
	}
}
