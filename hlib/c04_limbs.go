package verifh

// C04: generators for raw field-element limb vectors (radix 2^51 and radix
// 2^25.5) anywhere inside a per-limb headroom, and re-representation of a
// given value mod p with non-canonical limbs.  Backend independent: the
// harness passes the limb layout (C04Shape) of the backend it was built for.

import (
	"math/big"
	"math/bits"

	"pgregory.net/rapid"
	ref "verifref"
)

// C04Shape describes an unsaturated limb layout of a value mod 2^255-19.
type C04Shape struct {
	Pos []uint   // bit position of limb i in the radix formula
	W   []uint   // nominal width of limb i (Pos[i+1]-Pos[i]; the last one reaches 255)
	Max []uint64 // INCLUSIVE maximum the generators may produce for limb i
}

// C04Shape51 is the 5x51 layout with the same inclusive maximum for all limbs.
func C04Shape51(max uint64) C04Shape {
	s := C04Shape{}
	for i := 0; i < 5; i++ {
		s.Pos = append(s.Pos, uint(51*i))
		s.W = append(s.W, 51)
		s.Max = append(s.Max, max)
	}
	return s
}

// C04Shape51Max is the 5x51 layout with explicit per-limb maxima.
func C04Shape51Max(max [5]uint64) C04Shape {
	s := C04Shape51(0)
	copy(s.Max, max[:])
	return s
}

// C04Shape2625 is the 10-limb 26/25-bit layout (limb i at bit ceil(25.5 i)).
func C04Shape2625(maxEven, maxOdd uint64) C04Shape {
	s := C04Shape{}
	pos := uint(0)
	for i := 0; i < 10; i++ {
		s.Pos = append(s.Pos, pos)
		if i%2 == 0 {
			s.W = append(s.W, 26)
			s.Max = append(s.Max, maxEven)
			pos += 26
		} else {
			s.W = append(s.W, 25)
			s.Max = append(s.Max, maxOdd)
			pos += 25
		}
	}
	return s
}

// N is the number of limbs.
func (s C04Shape) N() int { return len(s.Pos) }

// Value evaluates the radix formula sum l[i] * 2^Pos[i] (no reduction).
func (s C04Shape) Value(l []uint64) *big.Int {
	v := new(big.Int)
	for i := len(l) - 1; i >= 0; i-- {
		t := new(big.Int).SetUint64(l[i])
		v.Add(v, t.Lsh(t, s.Pos[i]))
	}
	return v
}

// Canonical returns the limbs (each below 2^W[i]) of v mod p.
func (s C04Shape) Canonical(v *big.Int) []uint64 {
	x := ref.FMod(v)
	out := make([]uint64, s.N())
	for i := range out {
		m := new(big.Int).Rsh(x, s.Pos[i])
		m.And(m, new(big.Int).SetUint64((uint64(1)<<s.W[i])-1))
		out[i] = m.Uint64()
	}
	return out
}

// PLimb is limb i of p itself (2^W-19 for limb 0, 2^W-1 otherwise).
func (s C04Shape) PLimb(i int) uint64 {
	if i == 0 {
		return (uint64(1) << s.W[0]) - 19
	}
	return (uint64(1) << s.W[i]) - 1
}

// InRange reports whether every limb is within the shape's maxima.
func (s C04Shape) InRange(l []uint64) bool {
	if len(l) != s.N() {
		return false
	}
	for i, x := range l {
		if x > s.Max[i] {
			return false
		}
	}
	return true
}

func c04u64below(t *rapid.T, label string, max uint64) uint64 {
	if max == ^uint64(0) {
		return rapid.Uint64().Draw(t, label)
	}
	return rapid.Uint64Range(0, max).Draw(t, label)
}

// C04GenLimb draws one limb of nominal width w, at most max (inclusive), from
// a boundary-heavy catalogue.
func C04GenLimb(t *rapid.T, label string, w uint, max uint64, isLimb0 bool) uint64 {
	one := uint64(1)
	pl := (one << w) - 1
	if isLimb0 {
		pl = (one << w) - 19
	}
	var v uint64
	switch rapid.IntRange(0, 15).Draw(t, label+"_lk") {
	case 0:
		v = uint64(rapid.SampledFrom([]int{0, 0, 1, 2, 18, 19, 20, 37, 38}).Draw(t, label+"_s"))
	case 1: // around the nominal width
		v = (one << w) + uint64(rapid.IntRange(-20, 20).Draw(t, label+"_e"))
	case 2: // around nominal width + 1, + 2 bits ...
		k := uint(rapid.IntRange(1, 13).Draw(t, label+"_k"))
		if w+k > 63 {
			k = 63 - w
		}
		v = (one << (w + k)) + uint64(rapid.IntRange(-2, 1).Draw(t, label+"_e"))
	case 3: // top of the headroom
		e := uint64(rapid.IntRange(0, 40).Draw(t, label+"_e"))
		if e > max {
			e = max
		}
		v = max - e
	case 4, 5:
		v = max
	case 6: // limb of k*p
		k := uint64(rapid.IntRange(1, 16).Draw(t, label+"_k"))
		v = pl*k + uint64(rapid.IntRange(-1, 1).Draw(t, label+"_e"))
	case 7: // the carry-in bounds of the weak reductions
		v = (one << w) - 1 + rapid.SampledFrom([]uint64{8191, 8192, 19 * 8191, 19*8191 + 1, 1 << 13, 19 << 13}).Draw(t, label+"_c")
	case 8: // single bit
		v = one << uint(rapid.IntRange(0, 63).Draw(t, label+"_b"))
	case 9: // all ones below a bit length
		b := uint(rapid.IntRange(1, 64).Draw(t, label+"_b"))
		if b == 64 {
			v = ^uint64(0)
		} else {
			v = (one << b) - 1
		}
	case 10: // 32-bit seams inside a 64-bit word / 16-bit seams in a 32-bit word
		v = rapid.SampledFrom([]uint64{0xffffffff, 0x100000000, 0xfffffffe, 0x1ffffffff, 0xffff, 0x10000, 0xffff0000, 0xffff0000ffff, 0xaaaaaaaaaaaaaaaa, 0x5555555555555555}).Draw(t, label+"_m")
	case 11: // uniform below a chosen bit-length
		b := uint(rapid.IntRange(1, 64).Draw(t, label+"_b"))
		v = rapid.Uint64().Draw(t, label+"_u")
		if b < 64 {
			v &= (one << b) - 1
		}
	case 12: // uniform canonical
		v = rapid.Uint64().Draw(t, label+"_u") & ((one << w) - 1)
	case 13:
		// limb whose product with a small constant the code multiplies by
		// (19, 38, 121666, ...) has a LOW machine word just below 2^64:
		// v = floor(k*2^64/c) - j, so lo64(v*c) = 2^64 - r with r < (j+1)*c.  A
		// carry added to that low word then wraps - the place where a carry
		// into the high word is needed (probability ~2^-47 for uniform limbs).
		if w < 40 {
			v = c04u64below(t, label+"_u", max)
			break
		}
		c := rapid.SampledFrom([]uint64{121666, 121666, 121666, 19, 38, 2 * 121666, 121665}).Draw(t, label+"_c")
		hi := new(big.Int).Lsh(big.NewInt(1), 64)
		kmax := new(big.Int).Div(new(big.Int).Mul(new(big.Int).SetUint64(max), new(big.Int).SetUint64(c)), hi).Uint64()
		if kmax == 0 {
			v = max
			break
		}
		k := rapid.Uint64Range(1, kmax).Draw(t, label+"_k")
		q := new(big.Int).Div(new(big.Int).Mul(new(big.Int).SetUint64(k), hi), new(big.Int).SetUint64(c))
		v = q.Uint64() - uint64(rapid.IntRange(0, 3).Draw(t, label+"_j"))
	default: // uniform in the whole headroom
		v = c04u64below(t, label+"_u", max)
	}
	if v > max {
		// fold into range without losing the high-bit structure
		v &= (one << uint(bits.Len64(max)-1)) - 1
		if rapid.Bool().Draw(t, label+"_top") {
			v = max - (v & 0xff)
		}
	}
	return v
}

// C04GenLimbs draws a whole limb vector within the shape, plus the name of
// the element-level pattern used.
func C04GenLimbs(t *rapid.T, label string, s C04Shape) ([]uint64, string) {
	n := s.N()
	l := make([]uint64, n)
	one := uint64(1)
	switch rapid.IntRange(0, 11).Draw(t, label+"_ek") {
	case 0:
		for i := range l {
			l[i] = rapid.Uint64().Draw(t, label+"_u") & ((one << s.W[i]) - 1)
		}
		return l, "uniform-canonical"
	case 1:
		for i := range l {
			l[i] = c04u64below(t, label+"_u", s.Max[i])
		}
		return l, "uniform-headroom"
	case 2:
		e := uint64(rapid.IntRange(0, 3).Draw(t, label+"_e"))
		for i := range l {
			l[i] = s.Max[i]
			if e != 0 && rapid.Bool().Draw(t, label+"_d") && l[i] >= e {
				l[i] -= e
			}
		}
		return l, "all-max"
	case 3, 4, 5:
		for i := range l {
			l[i] = C04GenLimb(t, label, s.W[i], s.Max[i], i == 0)
		}
		return l, "catalogue"
	case 6: // one extreme limb, the rest zero / uniform canonical / max
		fill := rapid.IntRange(0, 2).Draw(t, label+"_fill")
		for i := range l {
			switch fill {
			case 1:
				l[i] = rapid.Uint64().Draw(t, label+"_u") & ((one << s.W[i]) - 1)
			case 2:
				l[i] = s.Max[i]
			}
		}
		i := rapid.IntRange(0, n-1).Draw(t, label+"_i")
		l[i] = C04GenLimb(t, label, s.W[i], s.Max[i], i == 0)
		return l, "one-hot"
	case 7: // all limbs below one chosen bit-length
		b := uint(rapid.IntRange(1, 64).Draw(t, label+"_b"))
		for i := range l {
			v := rapid.Uint64().Draw(t, label+"_u")
			if b < 64 {
				v &= (one << b) - 1
			}
			if rapid.IntRange(0, 3).Draw(t, label+"_set") == 0 && b < 64 {
				v |= one << (b - 1)
			}
			if v > s.Max[i] {
				v = s.Max[i] - (v & 0xffff & s.Max[i])
			}
			l[i] = v
		}
		return l, "bitlen"
	case 8: // k*p + small, limb-wise (values that are = small mod p, or >= p)
		k := uint64(rapid.IntRange(0, 16).Draw(t, label+"_k"))
		for k > 0 {
			ok := true
			for i := range l {
				if s.PLimb(i)*k > s.Max[i] {
					ok = false
				}
			}
			if ok {
				break
			}
			k--
		}
		for i := range l {
			l[i] = s.PLimb(i) * k
		}
		e := uint64(rapid.IntRange(0, 40).Draw(t, label+"_e"))
		if l[0]+e <= s.Max[0] {
			l[0] += e
		}
		return l, "kp+e"
	case 9, 10: // special values in a random non-canonical representation
		v := C04SpecialValue(t, label)
		return C04Repr(t, label, s, v), "special-repr"
	default: // near the top of the headroom
		for i := range l {
			e := uint64(rapid.IntRange(0, 1<<14).Draw(t, label+"_e"))
			if e > s.Max[i] {
				e = 0
			}
			l[i] = s.Max[i] - e
		}
		return l, "near-max"
	}
}

var c04pm1d2 = new(big.Int).Rsh(new(big.Int).Sub(ref.P, big.NewInt(1)), 1)

// C04SpecialValue draws a field value that matters to canonicalisation, sign,
// zero and square-root logic (returned in [0,p)).
func C04SpecialValue(t *rapid.T, label string) *big.Int {
	k := rapid.IntRange(0, 9).Draw(t, label+"_svk")
	switch k {
	case 0:
		return big.NewInt(0)
	case 1:
		return big.NewInt(int64(rapid.IntRange(0, 40).Draw(t, label+"_sv")))
	case 2:
		return ref.FNeg(big.NewInt(int64(rapid.IntRange(1, 40).Draw(t, label+"_sv"))))
	case 3:
		return new(big.Int).Set(ref.SqrtM1)
	case 4:
		return ref.FNeg(ref.SqrtM1)
	case 5:
		e := int64(rapid.IntRange(-2, 2).Draw(t, label+"_sv"))
		return ref.FMod(new(big.Int).Add(c04pm1d2, big.NewInt(e)))
	case 6: // 2^k and 2^k - 1
		v := new(big.Int).Lsh(big.NewInt(1), uint(rapid.IntRange(0, 254).Draw(t, label+"_svb")))
		if rapid.Bool().Draw(t, label+"_svm") {
			v.Sub(v, big.NewInt(1))
		}
		return ref.FMod(v)
	case 7: // a perfect square / its i-multiple of something small
		r := big.NewInt(int64(rapid.IntRange(1, 1000).Draw(t, label+"_sv")))
		v := ref.FSqr(r)
		if rapid.Bool().Draw(t, label+"_svi") {
			v = ref.FMul(v, ref.SqrtM1)
		}
		return v
	case 8:
		return new(big.Int).Set(ref.D)
	default:
		b, _ := Bytes256(t, label+"_svc")
		return ref.FMod(ref.FromLE(b))
	}
}

// C04Repr returns a randomly chosen limb vector within the shape whose radix
// value is congruent to v mod p: canonical limbs, plus an optional multiple
// of p, plus "un-carry" moves that push weight from limb i+1 down into limb i
// (and from the implicit limb at 2^255 = 19 into the top limb).
func C04Repr(t *rapid.T, label string, s C04Shape, v *big.Int) []uint64 {
	n := s.N()
	l := s.Canonical(v)
	// add k*p limb-wise while it fits
	if rapid.Bool().Draw(t, label+"_rp") {
		k := uint64(rapid.IntRange(1, 16).Draw(t, label+"_rk"))
		for ; k > 0; k-- {
			ok := true
			for i := range l {
				if l[i]+s.PLimb(i)*k > s.Max[i] || l[i]+s.PLimb(i)*k < l[i] {
					ok = false
				}
			}
			if ok {
				for i := range l {
					l[i] += s.PLimb(i) * k
				}
				break
			}
		}
	}
	moves := rapid.IntRange(0, 2*n).Draw(t, label+"_rm")
	for m := 0; m < moves; m++ {
		i := rapid.IntRange(0, n-1).Draw(t, label+"_ri")
		if l[i] > s.Max[i] {
			continue
		}
		cmax := (s.Max[i] - l[i]) >> s.W[i]
		if i < n-1 {
			if l[i+1] < cmax {
				cmax = l[i+1]
			}
		} else if l[0]/19 < cmax {
			cmax = l[0] / 19
		}
		if cmax == 0 {
			continue
		}
		c := cmax
		switch rapid.IntRange(0, 2).Draw(t, label+"_rc") {
		case 0:
			c = 1
		case 1:
			c = rapid.Uint64Range(1, cmax).Draw(t, label+"_rcv")
		}
		l[i] += c << s.W[i]
		if i < n-1 {
			l[i+1] -= c
		} else {
			l[0] -= 19 * c
		}
	}
	return l
}
