#!/usr/bin/env python3
"""Re-run the checks against kept seeded defects after the harness changed.
usage: seedrecheck.py <seed-name> [...]      (names of directories under /verif/seeded)
       seedrecheck.py --own <seed-name> ...  (only the check of the seed's own property)
For each seed: scratch worktree of /repo, git apply seeded/<name>/patch.diff, ./check <P> --tier quick with
VERIF_REPO for every property recorded in meta.json, results stored under meta["recheck"]; the worktree and the
alternate build directory are removed afterwards.  Exit 1 if some seed is no longer detected by any check."""
import sys, os, json, subprocess, shutil, hashlib, time

GOENV = {"GOFLAGS": "-mod=mod", "GOPROXY": "off", "GOSUMDB": "off", "GOTOOLCHAIN": "local"}


def sh(cmd, cwd, extra_env=None, timeout=7200):
    env = dict(os.environ, **GOENV)
    env.update(extra_env or {})
    p = subprocess.run(cmd, shell=True, cwd=cwd, env=env, stdout=subprocess.PIPE, stderr=subprocess.STDOUT, text=True, timeout=timeout)
    return p.returncode, p.stdout


def main():
    args = sys.argv[1:]
    own = False
    if args and args[0] == "--own":
        own, args = True, args[1:]
    lost = []
    for name in args:
        d = os.path.join("/verif/seeded", name)
        meta = json.load(open(os.path.join(d, "meta.json")))
        wt = "/tmp/sr-" + name
        sh("git -C /repo worktree remove --force %s" % wt, "/")
        shutil.rmtree(wt, ignore_errors=True)
        rc, out = sh("git -C /repo worktree add -f --detach %s HEAD" % wt, "/")
        rc, out = sh("git apply %s" % os.path.join(d, "patch.diff"), wt)
        if rc != 0:
            print(name, "PATCH DOES NOT APPLY", out[-300:])
            lost.append(name)
            continue
        props = sorted(meta.get("checks", {}))
        if own:
            props = [name.split("-")[0]]
        res = {}
        for p in props:
            t0 = time.time()
            rcc, oc = sh("./check %s --tier quick" % p, "/verif", {"VERIF_REPO": wt})
            lines = [l for l in oc.splitlines() if l.startswith(("VIOLATION", "OK", "HARNESS-ERROR", "KNOWN-FINDING"))]
            res[p] = {"rc": rcc, "wall_s": round(time.time() - t0, 1), "lines": lines[:4]}
        meta["recheck"] = {"when": time.strftime("%Y-%m-%d %H:%M"), "checks": res}
        json.dump(meta, open(os.path.join(d, "meta.json"), "w"), indent=1)
        det = [p for p, c in res.items() if c["rc"] == 1]
        print(name, "detected by", det, "| not:", [p + ":" + str(c["rc"]) for p, c in res.items() if c["rc"] != 1], flush=True)
        if not det:
            lost.append(name)
        sh("git -C /repo worktree remove --force %s" % wt, "/")
        shutil.rmtree(wt, ignore_errors=True)
        shutil.rmtree("/verif/.build/alt-" + hashlib.sha256(wt.encode()).hexdigest()[:10], ignore_errors=True)
    sh("git -C /repo worktree prune", "/")
    if lost:
        print("NO LONGER DETECTED:", lost)
        sys.exit(1)


main()
