#!/usr/bin/python3
"""Print the DESIGN.md table rows for kept seeded defects: seedtable.py r6 [r7 ...]
One row per /verif/seeded/<P>-<round>-<k>/meta.json: seed | needs | caught by (check `signature`; ...) | note.
The latest recheck (tools/seedrecheck.py) wins over the first evaluation for a property it covers."""
import json, glob, os, sys, re
for rnd in sys.argv[1:]:
    for d in sorted(glob.glob("/verif/seeded/*-%s-*" % rnd)):
        m = json.load(open(d + "/meta.json"))
        checks = dict(m.get("checks", {}))
        for p, c in (m.get("recheck", {}).get("checks", {}) or {}).items():
            checks[p] = {"rc": c["rc"], "lines": c.get("lines", [])}
        by = []
        missed = []
        for p, c in sorted(checks.items()):
            sig = [re.sub(r"^.*signature=", "", l) for l in c.get("lines", []) if l.startswith("VIOLATION")]
            if c["rc"] == 1:
                by.append("%s `%s`" % (p, sig[0][:110] if sig else "?"))
            else:
                missed.append("%s rc=%d" % (p, c["rc"]))
        note = m.get("design_note", "")
        print("| %s | %s | %s | %s |" % (os.path.basename(d), m.get("needs", "").replace("|", "/"), "; ".join(by) or "-", note))
