// c06cov enumerates the exported operations (functions, methods on exported
// types, and exported package-level variables) of every package of
// the repository and checks them against the checked-in coverage list
// /verif/harness/c06_coverage.txt.
//
//	c06cov -repo /repo -list               print "pkg Symbol" lines
//	c06cov -repo /repo -check <file>       exit 1 if a symbol is missing from / stale in the list
//
// All non-test files are parsed irrespective of build constraints, so symbols
// that exist only in one backend are listed too.
package main

import (
	"bufio"
	"flag"
	"fmt"
	"go/ast"
	"go/parser"
	"go/token"
	"os"
	"path/filepath"
	"sort"
	"strings"
)

// Packages that are not part of the library's operational surface.
var skipPkgs = map[string]string{
	"internal/testhelpers": "test-only helpers",
	"internal/toolchain":   "build-constraint assertions only, no code",
	"internal/disalloweq":  "zero-size marker type, no operations",
	"internal/asm":         "avo code generators (separate module, not linked into the library)",
}

func recvName(e ast.Expr) string {
	switch t := e.(type) {
	case *ast.StarExpr:
		return recvName(t.X)
	case *ast.Ident:
		return t.Name
	case *ast.IndexExpr:
		return recvName(t.X)
	}
	return "?"
}

func enumerate(repo string) (map[string]bool, error) {
	out := map[string]bool{}
	err := filepath.Walk(repo, func(path string, info os.FileInfo, err error) error {
		if err != nil {
			return err
		}
		rel, _ := filepath.Rel(repo, path)
		if info.IsDir() {
			base := filepath.Base(path)
			if rel != "." && (strings.HasPrefix(base, ".") || base == "testdata") {
				return filepath.SkipDir
			}
			if _, skip := skipPkgs[rel]; skip {
				return filepath.SkipDir
			}
			return nil
		}
		if !strings.HasSuffix(path, ".go") || strings.HasSuffix(path, "_test.go") {
			return nil
		}
		pkg := filepath.Dir(rel)
		fset := token.NewFileSet()
		f, err := parser.ParseFile(fset, path, nil, parser.SkipObjectResolution)
		if err != nil {
			return err
		}
		if f.Name.Name == "main" {
			return nil
		}
		for _, d := range f.Decls {
			switch d := d.(type) {
			case *ast.FuncDecl:
				if !d.Name.IsExported() {
					continue
				}
				if d.Recv != nil && len(d.Recv.List) > 0 {
					rn := recvName(d.Recv.List[0].Type)
					// methods on unexported types are reachable when the type is returned
					// through an exported constructor/interface; keep them only for
					// exported receivers, interface-reachable ones are listed by hand.
					if !ast.IsExported(rn) {
						continue
					}
					out[pkg+" "+rn+"."+d.Name.Name] = true
				} else {
					out[pkg+" "+d.Name.Name] = true
				}
			case *ast.GenDecl:
				if d.Tok != token.VAR {
					continue
				}
				for _, s := range d.Specs {
					vs := s.(*ast.ValueSpec)
					for i, n := range vs.Names {
						if !n.IsExported() {
							continue
						}
						// every exported package-level variable is an observable value
						isFunc := true
						_ = i
						if isFunc {
							out[pkg+" "+n.Name] = true
						}
					}
				}
			}
		}
		return nil
	})
	return out, err
}

func main() {
	repo := flag.String("repo", "/repo", "repository root")
	list := flag.Bool("list", false, "print the symbols")
	check := flag.String("check", "", "coverage list to check")
	flag.Parse()
	syms, err := enumerate(*repo)
	if err != nil {
		fmt.Fprintln(os.Stderr, "c06cov:", err)
		os.Exit(2)
	}
	var keys []string
	for k := range syms {
		keys = append(keys, k)
	}
	sort.Strings(keys)
	if *list {
		for _, k := range keys {
			fmt.Println(k)
		}
	}
	if *check == "" {
		return
	}
	fh, err := os.Open(*check)
	if err != nil {
		fmt.Fprintln(os.Stderr, "c06cov:", err)
		os.Exit(2)
	}
	defer fh.Close()
	listed := map[string]string{}
	sc := bufio.NewScanner(fh)
	sc.Buffer(make([]byte, 1<<20), 1<<20)
	nCov, nUncov := 0, 0
	for sc.Scan() {
		ln := strings.TrimSpace(sc.Text())
		if ln == "" || strings.HasPrefix(ln, "#") {
			continue
		}
		f := strings.Fields(ln)
		// <covered|uncovered> <pkg> <Symbol> <test or reason...>
		if len(f) < 4 || (f[0] != "covered" && f[0] != "uncovered") {
			fmt.Fprintf(os.Stderr, "c06cov: malformed line: %s\n", ln)
			os.Exit(2)
		}
		listed[f[1]+" "+f[2]] = f[0]
		if f[0] == "covered" {
			nCov++
		} else {
			nUncov++
		}
	}
	bad := 0
	for _, k := range keys {
		if _, ok := listed[k]; !ok {
			fmt.Printf("MISSING %s (exported by the tree, absent from the coverage list)\n", k)
			bad++
		}
	}
	for k := range listed {
		// "(unexported)..." / "(interface)..." entries and whole-package lines ("<pkg> *") are hand-maintained extras
		if !syms[k] && !strings.Contains(k, "(") && !strings.HasSuffix(k, " *") {
			fmt.Printf("STALE %s (in the coverage list, not exported by the tree)\n", k)
			bad++
		}
	}
	fmt.Printf("c06cov: exported=%d covered=%d uncovered=%d missing_or_stale=%d\n", len(keys), nCov, nUncov, bad)
	if bad != 0 {
		os.Exit(1)
	}
}
