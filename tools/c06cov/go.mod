module c06cov

go 1.21
