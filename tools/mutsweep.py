#!/usr/bin/python3
"""Automated mutation sweep: small syntactic mutants of /repo's non-test sources, each run against the quick tier of
the checks that are responsible for the file it lives in.  Measures the sensitivity of the checks on changes nobody
chose by hand (the D/O lists of DESIGN 8.4 and the seeded defects were all written with a property in mind).

usage: mutsweep.py --n 60 --seed 7 --out results.jsonl [--only <path-prefix> ...] [--nice 10]

For each mutant: scratch copy of the repository (never /repo itself), one token-level change on one line, builds in
the three tag configurations (a mutant that does not compile is "stillborn" and dropped), then `./check <P> --tier
quick` with VERIF_REPO pointing at the copy for the properties mapped to the file, stopping at the first check that
exits 1.  A survivor is additionally run against the package's own in-tree tests, so that the result line says whether
it is a mutant "that compiles and passes the existing tests" (the class the brief cares about) and can be inspected
by hand for equivalence.  Nothing here is a check of the manifest; it is a measurement of the checks."""
import argparse, hashlib, json, os, random, re, shutil, subprocess, sys, time

VERIF = os.path.dirname(os.path.dirname(os.path.abspath(__file__)))
REPO = os.environ.get("MUT_REPO", "/repo")
GOENV = {"GOFLAGS": "-mod=mod", "GOPROXY": "off", "GOSUMDB": "off", "GOTOOLCHAIN": "local"}

# directory (longest prefix wins) -> checks responsible, in the order they are tried
MAP = [
    ("internal/field", ["C04", "C06", "C03"]),
    ("internal/subtle", ["C04", "C05", "C06"]),
    ("curve/scalar/sc_minimal", ["C05", "C01"]),
    ("curve/scalar", ["C05", "C17", "C06", "C03"]),
    ("curve/montgomery", ["C07", "C10", "C06"]),
    ("curve/ristretto", ["C11", "C03", "C06", "C12"]),
    ("curve/scalar_mul_abglsv", ["C16", "C03", "C09"]),
    ("curve/window", ["C03", "C20", "C06"]),
    ("curve/constants", ["C20", "C03"]),
    ("curve/edwards.go", ["C10", "C03", "C06", "C01"]),
    ("curve", ["C03", "C10", "C06", "C11"]),
    ("internal/lattice", ["C16", "C09"]),
    ("internal/scalar128", ["C09", "C12"]),
    ("internal/elligator", ["C14", "C15", "C20"]),
    ("internal/strobe", ["C13", "C06", "C12"]),
    ("primitives/merlin", ["C13", "C12"]),
    ("primitives/h2c", ["C14", "C19", "C15"]),
    ("primitives/x25519", ["C07", "C19"]),
    ("primitives/sr25519", ["C12", "C19", "C06"]),
    ("primitives/ed25519/extra/cache", ["C09", "C18", "C19"]),
    ("primitives/ed25519/extra/ecvrf", ["C15", "C19"]),
    ("primitives/ed25519/batch_verify", ["C09", "C02", "C19"]),
    ("primitives/ed25519/ed25519_precomputation", ["C09", "C01", "C16"]),
    ("primitives/ed25519", ["C01", "C02", "C09", "C19"]),
]
SKIP = ("internal/asm", "internal/testhelpers", "internal/tools", "internal/toolchain", "internal/disalloweq",
        "internal/zeroreader", "constants_tables.go", "doc.go")

OPS = [
    ("rel", r"<=", "<"), ("rel", r">=", ">"),
    ("rel", r"(?<![<>=!\-])<(?![<=\-])", "<="), ("rel", r"(?<![<>=!\-])>(?![>=])", ">="),
    ("eq", r"==", "!="), ("eq", r"!=", "=="),
    ("logic", r"&&", "||"), ("logic", r"\|\|", "&&"),
    ("arith", r" \+ ", " - "), ("arith", r" - ", " + "),
    ("bit", r" & ", " | "), ("bit", r" \| ", " & "), ("bit", r" \^ ", " | "),
    ("shift", r"<<", ">>"), ("shift", r">>", "<<"),
    ("bool", r"\btrue\b", "false"), ("bool", r"\bfalse\b", "true"),
    ("const", r"(?<![\w.x])(\d{1,4})(?![\w.x])", None),
    ("delstmt", None, None),
    ("delnot", r"!(?=[\w(])", ""),
    ("assignop", r"\+=", "-="), ("assignop", r"\|=", "&="), ("assignop", r"&=", "|="), ("assignop", r"\^=", "|="),
]


def sh(cmd, cwd, extra=None, timeout=3600):
    env = dict(os.environ, **GOENV)
    env.update(extra or {})
    try:
        p = subprocess.run(cmd, shell=True, cwd=cwd, env=env, stdout=subprocess.PIPE, stderr=subprocess.STDOUT,
                           text=True, errors="replace", timeout=timeout)
        return p.returncode, p.stdout
    except subprocess.TimeoutExpired:
        return 124, "timeout"


def props_for(rel):
    best = None
    for pre, ps in MAP:
        if rel.startswith(pre) and (best is None or len(pre) > len(best[0])):
            best = (pre, ps)
    return best[1] if best else ["C06", "C19"]


def code_lines(path):
    """(index, line) of lines that hold code: outside block comments, import blocks and line comments."""
    out, inblock, inimport = [], False, False
    lines = open(path, errors="replace").read().split("\n")
    for i, ln in enumerate(lines):
        s = ln.strip()
        if inblock:
            if "*/" in s:
                inblock = False
            continue
        if s.startswith("/*"):
            inblock = "*/" not in s
            continue
        if inimport:
            if s == ")":
                inimport = False
            continue
        if s.startswith("import ("):
            inimport = True
            continue
        if not s or s.startswith("//") or s.startswith("package ") or s.startswith("import "):
            continue
        out.append(i)
    return lines, out


def mutate_line(rng, ln):
    code = ln.split("//")[0] if '"' not in ln else ln
    if '"' in code or "`" in code:
        return None
    cands = []
    for kind, pat, rep in OPS:
        if kind == "delstmt":
            if re.match(r"^\s+[\w.\[\]]+\([^{}]*\)\s*$", code) and "defer" not in code and "panic" not in code:
                cands.append((kind, None, None))
            continue
        for m in re.finditer(pat, code):
            cands.append((kind, m, rep))
    if not cands:
        return None
    kind, m, rep = rng.choice(cands)
    if kind == "delstmt":
        return kind, re.match(r"^\s*", ln).group(0) + "// (statement deleted)"
    if kind == "const":
        n = int(m.group(1))
        rep = str(n + rng.choice([1, -1]) if n > 0 else 1)
        return kind, ln[:m.start(1)] + rep + ln[m.end(1):]
    return kind, ln[:m.start()] + rep + ln[m.end():]


def main():
    ap = argparse.ArgumentParser()
    ap.add_argument("--n", type=int, default=40)
    ap.add_argument("--seed", type=int, default=1)
    ap.add_argument("--out", default="mutsweep.jsonl")
    ap.add_argument("--only", nargs="*", default=[])
    ap.add_argument("--nice", type=int, default=10)
    ap.add_argument("--scratch", default="/tmp")
    a = ap.parse_args()
    rng = random.Random(a.seed)
    files = []
    for root, _, fs in os.walk(REPO):
        if "/.git" in root:
            continue
        for f in fs:
            rel = os.path.relpath(os.path.join(root, f), REPO)
            if not f.endswith(".go") or f.endswith("_test.go") or any(s in rel for s in SKIP):
                continue
            if a.only and not any(rel.startswith(o) for o in a.only):
                continue
            files.append(rel)
    files.sort()
    weights = []
    for rel in files:
        _, idx = code_lines(os.path.join(REPO, rel))
        weights.append(len(idx))
    done, tries = 0, 0
    nice = "nice -n %d " % a.nice
    while done < a.n and tries < a.n * 20:
        tries += 1
        rel = rng.choices(files, weights)[0]
        lines, idx = code_lines(os.path.join(REPO, rel))
        i = rng.choice(idx)
        mut = mutate_line(rng, lines[i])
        if not mut or mut[1] == lines[i]:
            continue
        kind, newline = mut
        mid = hashlib.sha256(("%s:%d:%s" % (rel, i, newline)).encode()).hexdigest()[:10]
        wt = os.path.join(a.scratch, "mut-" + mid)
        shutil.rmtree(wt, ignore_errors=True)
        sh("rsync -a --exclude .git %s/ %s/" % (REPO, wt), "/")
        lines2 = list(lines)
        lines2[i] = newline
        open(os.path.join(wt, rel), "w").write("\n".join(lines2))
        rec = {"id": mid, "file": rel, "line": i + 1, "op": kind, "before": lines[i].strip(), "after": newline.strip()}
        try:
            rc, o = sh(nice + "go build ./... && " + nice + "go build -tags purego ./... && " + nice + "go build -tags force32bit ./... && GOARCH=386 " + nice + "go build ./...", wt)
            if rc != 0:
                rec["status"] = "stillborn"
                continue
            t0 = time.time()
            rec["status"], rec["checks"] = "survived", {}
            for p in props_for(rel):
                rcc, oc = sh(nice + "./check %s --tier quick" % p, VERIF, {"VERIF_REPO": wt, "VERIF_SEED": "1"}, timeout=2400)
                sig = [l.split("signature=")[-1][:120] for l in oc.splitlines() if l.startswith("VIOLATION")][:2]
                rec["checks"][p] = {"rc": rcc, "sig": sig}
                if rcc == 1:
                    rec["status"], rec["killed_by"] = "killed", p
                    break
            rec["wall_s"] = round(time.time() - t0, 1)
            if rec["status"] == "survived":
                rct, ot = sh(nice + "go test -vet=off -count=1 ./...", wt, timeout=1800)
                rec["in_tree_tests_pass"] = rct == 0
            done += 1
        finally:
            shutil.rmtree(wt, ignore_errors=True)
            shutil.rmtree(os.path.join(VERIF, ".build", "alt-" + hashlib.sha256(wt.encode()).hexdigest()[:10]), ignore_errors=True)
            if rec.get("status") != "stillborn":
                with open(a.out, "a") as f:
                    f.write(json.dumps(rec) + "\n")
                print(json.dumps(rec)[:400], flush=True)
    print("mutants run: %d (tries %d)" % (done, tries))


if __name__ == "__main__":
    main()
