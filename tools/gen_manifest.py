#!/usr/bin/python3
"""Regenerates /verif/MANIFEST.json from props.py (single source of truth)."""
import json, os, sys
VERIF = os.path.dirname(os.path.dirname(os.path.abspath(__file__)))
sys.path.insert(0, VERIF)
import props

ALL = ["C%02d" % i for i in range(1, 21)]
READY = set(open(os.path.join(VERIF, "props.d", "READY")).read().split())
checks = []
for pid in ALL:
    if pid not in props.PROPS or pid not in READY:
        continue
    s = props.PROPS[pid]
    checks.append({
        "property_id": pid,
        "quick_cmd": "./check %s --tier quick" % pid,
        "thorough_cmd": "./check %s --tier thorough" % pid,
        "evidence_file": "/verif/evidence/%s.json" % pid,
        "replay_cmd_template": "./check %s --replay {path}" % pid,
        "engine": s.get("engine", "rapid"),
        "level_claimed": {"category": s.get("level", "exploration"), "text": s["level_text"], "design_ref": "DESIGN.md section 4, " + pid},
        "level_note": s["level_note"],
        "technique": s["technique"],
    })
na = [{"property_id": pid, "reason": props.NOT_APPLICABLE.get(pid, "check not built yet in this revision; not claimed")}
      for pid in ALL if pid not in props.PROPS or pid not in READY]
m = {
    "version": 1,
    "setup_cmd": "./check setup",
    "hooks": {
        "guard": "verif",
        "enable": "go test -c -vet=off -tags verif[,purego|,force32bit] -modfile=/verif/modfile/go.mod -overlay=<generated: /verif/harness/<pkg>/*.go -> /repo/<pkg>/zz_verif_*.go> ./<pkg>  (no source changes in /repo: harness files are grafted at build time, every one carries //go:build verif)",
        "baseline_off_cmd": "cd /repo && GOFLAGS=-mod=mod go test -vet=off -count=1 -timeout 25m ./...",
        "source_commits": [],
        "add_only": True,
    },
    "engines": [
        {"name": "rapid", "path": "/verif/hlib/run.go", "serves_properties": [c["property_id"] for c in checks],
         "kind_free_text": "pgregory.net/rapid v1.3.0 property-based testing with integrated shrinking, driven by /verif/check (sharded processes, seeds from VERIF_SEED), oracles in /verif/ref (math/big reference models)"},
    ],
    "checks": checks,
    "not_applicable": na,
    "notes": "Property-based testing / fuzzing family. ./check <id> --tier quick|thorough; exit 0/1/2 (2 = harness failure, never a violation). See DESIGN.md.",
}
json.dump(m, open(os.path.join(VERIF, "MANIFEST.json"), "w"), indent=1)
print("MANIFEST.json: %d checks, %d not_applicable" % (len(checks), len(na)))
