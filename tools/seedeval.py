#!/usr/bin/python3
"""Confirm a seeded defect (patch + demonstration produced by an independent sub-agent) in a scratch worktree and run
the property's check against it.  usage: seedeval.py <spec.json>
spec: {"prop": "C05", "k": 1, "out": "/tmp/seed-C05-out", "patch": "patch1.diff", "note": "note1.md",
       "demo_src": "demo1_test.go" | "demo1" (dir), "demo_dest": "curve/scalar/zz_seed_demo_test.go" | "demo1",
       "demo_cmd": "go test -vet=off -count=1 -run Demo ./curve/scalar/", "needs": "...", "tier": "quick",
       "props": ["C05"]}   # props: which checks to run against it (default [prop])
Keeps /verif/seeded/<prop>-<k>/{patch.diff, demo..., note.md, meta.json}."""
import json, os, shutil, subprocess, sys, time

spec = json.load(open(sys.argv[1]))
prop, k, out = spec["prop"], spec["k"], spec["out"]
wt = "/tmp/sv-%s-%s" % (prop, k)
env = dict(os.environ, GOFLAGS="-mod=mod", GOPROXY="off", GOSUMDB="off", GOTOOLCHAIN="local")
log = []


def sh(cmd, cwd=wt, timeout=3600, extra_env=None):
    e = dict(env)
    if extra_env:
        e.update(extra_env)
    p = subprocess.run(cmd, shell=True, cwd=cwd, env=e, stdout=subprocess.PIPE, stderr=subprocess.STDOUT, text=True,
                       errors="replace", timeout=timeout)
    log.append({"cmd": cmd, "rc": p.returncode, "tail": p.stdout[-1500:]})
    return p.returncode, p.stdout


subprocess.run(["git", "-C", "/repo", "worktree", "remove", "--force", wt], stdout=subprocess.DEVNULL, stderr=subprocess.DEVNULL)
shutil.rmtree(wt, ignore_errors=True)
rc, o = sh("git -C /repo worktree add --detach %s HEAD" % wt, cwd="/")
assert rc == 0, o
result = {"property": prop, "seed": k, "needs": spec.get("needs", ""), "confirmed": False}
try:
    def put_demo():
        src = os.path.join(out, spec["demo_src"])
        dst = os.path.join(wt, spec["demo_dest"])
        if os.path.isdir(src):
            shutil.copytree(src, dst, dirs_exist_ok=True)
        else:
            os.makedirs(os.path.dirname(dst), exist_ok=True)
            shutil.copy(src, dst)

    def rm_demo():
        dst = os.path.join(wt, spec["demo_dest"])
        if os.path.isdir(dst):
            shutil.rmtree(dst)
        elif os.path.exists(dst):
            os.remove(dst)

    put_demo()
    rc_clean, _ = sh(spec["demo_cmd"])
    rm_demo()
    rc, o = sh("git apply %s" % os.path.join(out, spec["patch"]))
    assert rc == 0, "patch does not apply: " + o
    rc_build, _ = sh("go build ./... && go build -tags purego ./... && go build -tags force32bit ./...")
    rc_tests, o_tests = sh("go test -vet=off -count=1 ./...")
    put_demo()
    rc_patched, _ = sh(spec["demo_cmd"])
    rm_demo()
    result.update({"demo_passes_on_clean_tree": rc_clean == 0, "builds": rc_build == 0, "existing_tests_pass_with_patch": rc_tests == 0,
                   "demo_fails_with_patch": rc_patched != 0})
    result["confirmed"] = rc_clean == 0 and rc_build == 0 and rc_tests == 0 and rc_patched != 0
    checks = {}
    for p in spec.get("props", [prop]):
        t0 = time.time()
        tier = spec.get("tier", "quick")
        rcc, oc = sh("./check %s --tier %s" % (p, tier), cwd="/verif", extra_env={"VERIF_REPO": wt}, timeout=6 * 3600)
        lines = [l for l in oc.splitlines() if l.startswith(("VIOLATION", "HARNESS-ERROR", "OK "))]
        checks[p] = {"tier": tier, "rc": rcc, "detected": rcc == 1, "lines": [l[:400] for l in lines[:4]], "wall_s": round(time.time() - t0, 1)}
    result["checks"] = checks
finally:
    subprocess.run(["git", "-C", "/repo", "worktree", "remove", "--force", wt], stdout=subprocess.DEVNULL, stderr=subprocess.DEVNULL)
    shutil.rmtree(wt, ignore_errors=True)
    import hashlib
    shutil.rmtree("/verif/.build/alt-" + hashlib.sha256(wt.encode()).hexdigest()[:10], ignore_errors=True)
    subprocess.run(["git", "-C", "/repo", "worktree", "prune"])
result["ran"] = log
print(json.dumps({k_: v for k_, v in result.items() if k_ != "ran"}, indent=1))
if result["confirmed"]:
    d = "/verif/seeded/%s-%s" % (prop, k)
    os.makedirs(d, exist_ok=True)
    shutil.copy(os.path.join(out, spec["patch"]), os.path.join(d, "patch.diff"))
    src = os.path.join(out, spec["demo_src"])
    if os.path.isdir(src):
        shutil.copytree(src, os.path.join(d, "demo"), dirs_exist_ok=True)
    else:
        shutil.copy(src, os.path.join(d, os.path.basename(spec["demo_src"])))
    if spec.get("note") and os.path.exists(os.path.join(out, spec["note"])):
        shutil.copy(os.path.join(out, spec["note"]), os.path.join(d, "note.md"))
    result["demo_dest"] = spec["demo_dest"]
    result["demo_cmd"] = spec["demo_cmd"]
    json.dump(result, open(os.path.join(d, "meta.json"), "w"), indent=1)
else:
    print("NOT CONFIRMED - not kept")
