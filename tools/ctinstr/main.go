// ctinstr rewrites a scratch copy of curve25519-voi so that every executed
// basic block, every short-circuit operand evaluation, every non-constant
// integer index / slice bound and every call of a variable-time byte
// comparison is reported to package internal/zzct.  Insertions are purely
// textual at byte offsets computed from the AST, on the same line, so line
// numbers, comments and //go: directives are preserved.
//
//	ctinstr <root>      rewrites <root>/**/*.go (non-test, not internal/asm), writes <root>/zzct_ids.json
package main

import (
	"encoding/json"
	"fmt"
	"go/ast"
	"go/parser"
	"go/token"
	"os"
	"path/filepath"
	"sort"
	"strings"
)

const modPath = "github.com/oasisprotocol/curve25519-voi"

type ins struct {
	off  int
	text string
	open bool
	seq  int
}

type idInfo struct {
	ID   int    `json:"id"`
	Kind string `json:"kind"`
	Pos  string `json:"pos"`
	Func string `json:"func"`
}

var (
	ids    []idInfo
	nextID = 1
)

func newID(kind, pos, fn string) int {
	id := nextID
	nextID++
	ids = append(ids, idInfo{id, kind, pos, fn})
	return id
}

func hasIdent(e ast.Expr) bool {
	found := false
	ast.Inspect(e, func(n ast.Node) bool {
		switch n.(type) {
		case *ast.Ident, *ast.CallExpr:
			found = true
		}
		return !found
	})
	return found
}

func instrumentFile(root, path string) error {
	src, err := os.ReadFile(path)
	if err != nil {
		return err
	}
	fset := token.NewFileSet()
	f, err := parser.ParseFile(fset, path, src, parser.ParseComments)
	if err != nil {
		return err
	}
	rel, _ := filepath.Rel(root, path)
	var inss []ins
	seq := 0
	add := func(off int, text string, open bool) {
		seq++
		inss = append(inss, ins{off, text, open, seq})
	}
	off := func(p token.Pos) int { return fset.Position(p).Offset }
	posStr := func(p token.Pos) string {
		ps := fset.Position(p)
		return fmt.Sprintf("%s:%d:%d", rel, ps.Line, ps.Column)
	}
	curFunc := "init"
	block := func(b *ast.BlockStmt, kind string) {
		if b == nil {
			return
		}
		id := newID(kind, posStr(b.Lbrace), curFunc)
		add(off(b.Lbrace)+1, fmt.Sprintf("zzct.B(%d);", id), true)
	}
	wrap := func(e ast.Expr, fn, kind string) {
		id := newID(kind, posStr(e.Pos()), curFunc)
		add(off(e.Pos()), fmt.Sprintf("zzct.%s(%d, ", fn, id), true)
		add(off(e.End()), ")", false)
	}
	// constant declarations must stay constant: do not touch anything inside them
	inConst := map[ast.Node]bool{}
	for _, d := range f.Decls {
		if gd, ok := d.(*ast.GenDecl); ok && gd.Tok == token.CONST {
			inConst[gd] = true
		}
	}
	var walk func(n ast.Node) bool
	walk = func(n ast.Node) bool {
		if n == nil {
			return true
		}
		if inConst[n] {
			return false
		}
		switch x := n.(type) {
		case *ast.FuncDecl:
			name := x.Name.Name
			if x.Recv != nil && len(x.Recv.List) > 0 {
				t := x.Recv.List[0].Type
				if s, ok := t.(*ast.StarExpr); ok {
					t = s.X
				}
				if id, ok := t.(*ast.Ident); ok {
					name = id.Name + "." + name
				}
			}
			curFunc = f.Name.Name + "." + name
			block(x.Body, "func")
		case *ast.FuncLit:
			block(x.Body, "funclit")
		case *ast.IfStmt:
			block(x.Body, "if")
			if eb, ok := x.Else.(*ast.BlockStmt); ok {
				block(eb, "else")
			}
		case *ast.ForStmt:
			block(x.Body, "for")
		case *ast.RangeStmt:
			block(x.Body, "range")
		case *ast.CaseClause:
			id := newID("case", posStr(x.Colon), curFunc)
			add(off(x.Colon)+1, fmt.Sprintf("zzct.B(%d);", id), true)
		case *ast.CommClause:
			id := newID("comm", posStr(x.Colon), curFunc)
			add(off(x.Colon)+1, fmt.Sprintf("zzct.B(%d);", id), true)
		case *ast.BinaryExpr:
			if x.Op == token.LAND || x.Op == token.LOR {
				wrap(x.Y, "E", "shortcircuit")
			}
		case *ast.IndexExpr:
			if hasIdent(x.Index) {
				wrap(x.Index, "I", "index")
			}
		case *ast.SliceExpr:
			for _, e := range []ast.Expr{x.Low, x.High, x.Max} {
				if e != nil && hasIdent(e) {
					wrap(e, "I", "slicebound")
				}
			}
		case *ast.CallExpr:
			// variable-time comparisons from the standard library
			if se, ok := x.Fun.(*ast.SelectorExpr); ok {
				if pk, ok := se.X.(*ast.Ident); ok && pk.Name == "bytes" && (se.Sel.Name == "Equal" || se.Sel.Name == "Compare") && len(x.Args) == 2 {
					id := newID("vartime-compare", posStr(x.Pos()), curFunc)
					// bytes.Equal(a, b) -> bytes.Equal(zzct.V2(id, a, b))
					add(off(x.Args[0].Pos()), fmt.Sprintf("zzct.V2(%d, ", id), true)
					add(off(x.Args[1].End()), ")", false)
				}
			}
		}
		return true
	}
	ast.Inspect(f, walk)
	if len(inss) == 0 {
		return nil
	}
	// package clause: append the import on the same line
	pkgEnd := off(f.Name.End())
	add(pkgEnd, fmt.Sprintf("; import zzct %q", modPath+"/internal/zzct"), true)
	sort.SliceStable(inss, func(i, j int) bool {
		a, b := inss[i], inss[j]
		if a.off != b.off {
			return a.off < b.off
		}
		if a.open != b.open {
			return !a.open // closes before opens at the same offset
		}
		if a.open {
			return a.seq < b.seq // outer first
		}
		return a.seq > b.seq // inner first
	})
	var out strings.Builder
	last := 0
	for _, in := range inss {
		out.Write(src[last:in.off])
		out.WriteString(in.text)
		last = in.off
	}
	out.Write(src[last:])
	out.WriteString("\nvar _ = zzct.B\n")
	return os.WriteFile(path, []byte(out.String()), 0o644)
}

func main() {
	if len(os.Args) != 2 {
		fmt.Fprintln(os.Stderr, "usage: ctinstr <root>")
		os.Exit(2)
	}
	root := os.Args[1]
	var files []string
	err := filepath.Walk(root, func(p string, info os.FileInfo, err error) error {
		if err != nil {
			return err
		}
		rel, _ := filepath.Rel(root, p)
		if info.IsDir() {
			if rel == ".git" || rel == filepath.Join("internal", "asm") || rel == filepath.Join("internal", "zzct") || strings.HasPrefix(filepath.Base(p), "zzct") {
				return filepath.SkipDir
			}
			return nil
		}
		if strings.HasSuffix(p, ".go") && !strings.HasSuffix(p, "_test.go") {
			files = append(files, p)
		}
		return nil
	})
	if err != nil {
		fmt.Fprintln(os.Stderr, err)
		os.Exit(2)
	}
	sort.Strings(files)
	for _, p := range files {
		if err := instrumentFile(root, p); err != nil {
			fmt.Fprintf(os.Stderr, "ctinstr: %s: %v\n", p, err)
			os.Exit(2)
		}
	}
	b, _ := json.Marshal(ids)
	if err := os.WriteFile(filepath.Join(root, "zzct_ids.json"), b, 0o644); err != nil {
		fmt.Fprintln(os.Stderr, err)
		os.Exit(2)
	}
	fmt.Printf("ctinstr: %d files, %d probes\n", len(files), len(ids))
}
