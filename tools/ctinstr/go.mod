module ctinstr

go 1.18
