#!/bin/bash
# usage: muttest.sh <PROP> <name> <file-relative-to-repo> <python-expr-old> <python-expr-new>
# Applies a textual mutant to a scratch copy of /repo, runs the property's quick check against it, reports.
PROP=$1; NAME=$2; FILE=$3; OLD=$4; NEW=$5
D=/tmp/mut-$PROP-$$
rm -rf $D; rsync -a --exclude .git /repo/ $D/
python3 - "$D/$FILE" "$OLD" "$NEW" <<'PY'
import sys
p,old,new=sys.argv[1:4]
old=old.encode().decode('unicode_escape'); new=new.encode().decode('unicode_escape')
s=open(p).read()
if s.count(old)<1:
    print("MUTANT-NOT-APPLICABLE: pattern not found"); sys.exit(3)
s=s.replace(old,new,1)
open(p,'w').write(s)
PY
rc=$?
if [ $rc -ne 0 ]; then rm -rf $D; exit 3; fi
if [ -n "$MUT_INTREE" ]; then (cd $D && GOFLAGS=-mod=mod GOPROXY=off go test -vet=off -count=1 ./... 2>&1 | grep -v "no test files" | grep -v "^ok" | head -5); fi
out=$(cd /verif && VERIF_REPO=$D ./check $PROP ${MUT_TIER:+--tier $MUT_TIER} 2>&1); rc=$?
echo "MUTANT $PROP/$NAME rc=$rc $(echo "$out" | grep -m2 -E 'VIOLATION|HARNESS-ERROR|^OK' | cut -c1-300)"
rm -rf $D /verif/.build/alt-$(python3 -c "import hashlib;print(hashlib.sha256('$D'.encode()).hexdigest()[:10])")
