#!/usr/bin/python3
"""Parse callgrind dump parts (name-compressed) and return, per part, the self instruction count of every
function whose source file is an assembly file (.s) of the module under test."""
import re, sys, os, glob

RE_DEF = re.compile(r'^(fl|fi|fe|fn|ob|cfn|cfi|cfl|cob)=\((\d+)\)(?: (.*))?$')


def parse_parts(prefix):
    parts = []
    # out.1, out.2, ..., then the final file "out" (no suffix)
    files = sorted(glob.glob(prefix + ".*"), key=lambda p: int(p.rsplit(".", 1)[1]))
    if os.path.exists(prefix):
        files.append(prefix)
    names = {"fl": {}, "fn": {}, "ob": {}}
    kindmap = {"fl": "fl", "fi": "fl", "fe": "fl", "cfi": "fl", "cfl": "fl", "fn": "fn", "cfn": "fn", "ob": "ob", "cob": "ob"}
    for f in files:
        cur_fl = cur_fn = None
        fn_file = {}
        self_cost = {}
        skip_next = False
        for ln in open(f, errors="replace"):
            ln = ln.rstrip("\n")
            if not ln:
                continue
            m = RE_DEF.match(ln)
            if m:
                kind, idx, name = m.group(1), m.group(2), m.group(3)
                tab = names[kindmap[kind]]
                if name is not None:
                    tab[idx] = name
                name = tab.get(idx, "?" + idx)
                if kind == "fl":
                    cur_fl = name
                elif kind == "fn":
                    cur_fn = name
                    fn_file.setdefault(cur_fn, cur_fl)
                continue
            if ln.startswith("calls="):
                skip_next = True
                continue
            c = ln[0]
            if c.isdigit() or c in "+-*":
                if skip_next:
                    skip_next = False
                    continue
                toks = ln.split()
                if len(toks) >= 2 and cur_fn is not None:
                    try:
                        self_cost[cur_fn] = self_cost.get(cur_fn, 0) + int(toks[1])
                    except ValueError:
                        pass
        parts.append({fn: c for fn, c in self_cost.items()
                      if (fn_file.get(fn) or "").endswith(".s") and "curve25519-voi" in (fn_file.get(fn) or "") + fn})
    return parts


if __name__ == "__main__":
    for i, p in enumerate(parse_parts(sys.argv[1])):
        print(i, sorted(p.items()))
