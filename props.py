"""Property table for the driver: which grafted tests decide which property,
in which build/CPU configurations, and how many generated cases per tier."""

ALL4 = ["default", "noavx2", "purego", "force32bit"]
B3 = ["default", "purego", "force32bit"]
# thorough tier: also a real 32-bit target (GOARCH=386, see CONFIGS in ./check)
ALL4T = {"quick": ALL4, "thorough": ALL4 + ["386"]}
# 386x64: the portable 64-bit limb code on a target with 32-bit int/uint (force64bit tag on GOARCH=386)
ALL4Q = {"quick": ALL4 + ["386", "386x64"], "thorough": ALL4 + ["386", "386x64"]}

def T(quick, thorough, **kw):
    d = {"quick": quick, "thorough": thorough}
    d.update(kw)
    return d

def FUZZ(seconds, **kw):
    """Native Go fuzzing campaign on a rapid.MakeFuzz target: thorough tier only, bounded by -fuzztime."""
    d = {"quick": None, "thorough": seconds, "kind": "fuzz"}
    d.update(kw)
    return d

def LIST(**kw):
    d = {"quick": 1, "thorough": 1, "kind": "list"}
    d.update(kw)
    return d

PROPS = {}
NOT_APPLICABLE = {}


import glob as _glob, os as _os
for _f in sorted(_glob.glob(_os.path.join(_os.path.dirname(_os.path.abspath(__file__)), "props.d", "C*.py"))):
    exec(compile(open(_f).read(), _f, "exec"))
